//! xoshiro256** with splitmix64 seeding. Every random decision of the harness flows from here.

#[derive(Clone)]
pub struct Rng {
    s: [u64; 4],
}

// Tape mode (coverage-guided, structure-aware fuzzing and its replay): while a tape is set on the current thread, every
// random decision of every generator is read from it, two bytes per decision; past its end a generator seeded from the
// tape's hash takes over, so a case is a pure function of the tape.
use std::cell::RefCell;
use std::sync::atomic::{AtomicBool, Ordering};
static TAPE_ON: AtomicBool = AtomicBool::new(false);
thread_local! {
    static TAPE: RefCell<Option<(Vec<u8>, usize, Rng)>> = const { RefCell::new(None) };
}
pub fn set_tape(data: &[u8]) {
    let fallback = Rng::new(fnv(data));
    TAPE.with(|t| *t.borrow_mut() = Some((data.to_vec(), 0, fallback)));
    TAPE_ON.store(true, Ordering::Relaxed);
}
pub fn clear_tape() {
    TAPE.with(|t| *t.borrow_mut() = None);
    TAPE_ON.store(false, Ordering::Relaxed);
}
fn tape_next() -> Option<u64> {
    TAPE.with(|t| {
        let mut g = t.borrow_mut();
        let (data, pos, fallback) = g.as_mut()?;
        if *pos + 2 <= data.len() {
            let v = u16::from_le_bytes([data[*pos], data[*pos + 1]]) as u64;
            *pos += 2;
            // the value in all four 16-bit lanes: the high bits drive below(), the low bits drive bool()/u8()
            Some(v.wrapping_mul(0x0001_0001_0001_0001))
        } else {
            Some(fallback.next_raw())
        }
    })
}

pub fn splitmix(x: &mut u64) -> u64 {
    *x = x.wrapping_add(0x9E3779B97F4A7C15);
    let mut z = *x;
    z = (z ^ (z >> 30)).wrapping_mul(0xBF58476D1CE4E5B9);
    z = (z ^ (z >> 27)).wrapping_mul(0x94D049BB133111EB);
    z ^ (z >> 31)
}

pub fn fnv(bytes: &[u8]) -> u64 {
    let mut h: u64 = 0xcbf29ce484222325;
    for b in bytes {
        h ^= *b as u64;
        h = h.wrapping_mul(0x100000001b3);
    }
    // final avalanche
    let mut x = h;
    splitmix(&mut x)
}

impl Rng {
    pub fn new(seed: u64) -> Self {
        let mut x = seed;
        let s = [
            splitmix(&mut x),
            splitmix(&mut x),
            splitmix(&mut x),
            splitmix(&mut x),
        ];
        Rng { s }
    }

    /// Independent stream for (seed, family, index): random access to cases.
    pub fn for_case(seed: u64, family: &str, idx: u64) -> Self {
        let mut h = fnv(family.as_bytes()) ^ seed.wrapping_mul(0x9E3779B97F4A7C15);
        h ^= idx.wrapping_mul(0xD6E8FEB86659FD93);
        Rng::new(h)
    }

    pub fn next(&mut self) -> u64 {
        if TAPE_ON.load(Ordering::Relaxed) {
            if let Some(v) = tape_next() {
                return v;
            }
        }
        self.next_raw()
    }

    fn next_raw(&mut self) -> u64 {
        let r = self.s[1].wrapping_mul(5).rotate_left(7).wrapping_mul(9);
        let t = self.s[1] << 17;
        self.s[2] ^= self.s[0];
        self.s[3] ^= self.s[1];
        self.s[1] ^= self.s[2];
        self.s[0] ^= self.s[3];
        self.s[2] ^= t;
        self.s[3] = self.s[3].rotate_left(45);
        r
    }

    /// uniform in 0..n (n>0)
    pub fn below(&mut self, n: u64) -> u64 {
        debug_assert!(n > 0);
        ((self.next() as u128 * n as u128) >> 64) as u64
    }

    pub fn range(&mut self, lo: u64, hi_incl: u64) -> u64 {
        lo + self.below(hi_incl - lo + 1)
    }

    pub fn usize(&mut self, lo: usize, hi_incl: usize) -> usize {
        self.range(lo as u64, hi_incl as u64) as usize
    }

    pub fn chance(&mut self, num: u64, den: u64) -> bool {
        self.below(den) < num
    }

    pub fn bool(&mut self) -> bool {
        self.next() & 1 == 1
    }

    pub fn pick<'a, T>(&mut self, xs: &'a [T]) -> &'a T {
        &xs[self.below(xs.len() as u64) as usize]
    }

    pub fn u8(&mut self) -> u8 {
        self.next() as u8
    }

    pub fn bytes(&mut self, n: usize) -> Vec<u8> {
        (0..n).map(|_| self.u8()).collect()
    }

    /// boundary-biased integer of `bits` width
    pub fn int(&mut self, bits: u32) -> u64 {
        let max: u64 = if bits >= 64 { u64::MAX } else { (1u64 << bits) - 1 };
        match self.below(10) {
            0 => 0,
            1 => 1,
            2 => max,
            3 => max - 1,
            4 => max >> 1,                  // 0x7F..
            5 => (max >> 1) + 1,            // 0x80..
            6 => self.below(256).min(max),  // small
            7 => {
                // one byte set
                let byte = self.below((bits as u64 + 7) / 8);
                ((self.below(255) + 1) << (8 * byte)) & max
            }
            _ => self.next() & max,
        }
    }

    pub fn shuffle<T>(&mut self, xs: &mut [T]) {
        for i in (1..xs.len()).rev() {
            let j = self.below(i as u64 + 1) as usize;
            xs.swap(i, j);
        }
    }
}
