//! model <-> library values, through public constructors/fields plus the raw-byte hooks only.

use crate::model::*;
use crate::refdns::*;
use simple_dns::rdata::verif::{Gateway, TypeBitMap};
use simple_dns::rdata::*;
use simple_dns::{
    CharacterString, Label, Name, Packet, PacketFlag, Question, ResourceRecord, CLASS, OPCODE,
    QCLASS, QTYPE, RCODE, TYPE,
};
use std::borrow::Cow;
use std::convert::TryFrom;
use std::net::{Ipv4Addr, Ipv6Addr};

// ---------------------------------------------------------------------------------------------
// model -> library

pub fn lib_name(n: &NameM) -> Name<'_> {
    let labels: Vec<Label> = n.iter().map(|l| Label::new_unchecked(&l[..])).collect();
    Name::new_with_labels(&labels)
}

fn cs(b: &[u8]) -> Result<CharacterString<'_>, String> {
    CharacterString::new(b).map_err(|e| format!("CharacterString::new: {:?}", e))
}

pub fn lib_class(c: u16) -> Result<CLASS, String> {
    CLASS::try_from(c).map_err(|e| format!("CLASS {}: {:?}", c, e))
}

pub fn lib_opcode(o: u16) -> Option<OPCODE> {
    Some(match o {
        0 => OPCODE::StandardQuery,
        1 => OPCODE::InverseQuery,
        2 => OPCODE::ServerStatusRequest,
        4 => OPCODE::Notify,
        5 => OPCODE::Update,
        _ => return None,
    })
}

pub fn lib_rcode(r: u16) -> Option<RCODE> {
    Some(match r {
        0 => RCODE::NoError,
        1 => RCODE::FormatError,
        2 => RCODE::ServerFailure,
        3 => RCODE::NameError,
        4 => RCODE::NotImplemented,
        5 => RCODE::Refused,
        6 => RCODE::YXDOMAIN,
        7 => RCODE::YXRRSET,
        8 => RCODE::NXRRSET,
        9 => RCODE::NOTAUTH,
        10 => RCODE::NOTZONE,
        16 => RCODE::BADVERS,
        _ => return None,
    })
}

pub fn obs_opcode(o: OPCODE) -> u16 {
    match o {
        OPCODE::StandardQuery => 0,
        OPCODE::InverseQuery => 1,
        OPCODE::ServerStatusRequest => 2,
        OPCODE::Notify => 4,
        OPCODE::Update => 5,
        OPCODE::Reserved => OPCODE_RESERVED,
    }
}

pub fn obs_rcode(r: RCODE) -> u16 {
    match r {
        RCODE::NoError => 0,
        RCODE::FormatError => 1,
        RCODE::ServerFailure => 2,
        RCODE::NameError => 3,
        RCODE::NotImplemented => 4,
        RCODE::Refused => 5,
        RCODE::YXDOMAIN => 6,
        RCODE::YXRRSET => 7,
        RCODE::NXRRSET => 8,
        RCODE::NOTAUTH => 9,
        RCODE::NOTZONE => 10,
        RCODE::BADVERS => 16,
        RCODE::Reserved => RCODE_RESERVED,
    }
}

pub const ALL_FLAGS: [(PacketFlag, u16); 7] = [
    (PacketFlag::RESPONSE, 0x8000),
    (PacketFlag::AUTHORITATIVE_ANSWER, 0x0400),
    (PacketFlag::TRUNCATION, 0x0200),
    (PacketFlag::RECURSION_DESIRED, 0x0100),
    (PacketFlag::RECURSION_AVAILABLE, 0x0080),
    (PacketFlag::AUTHENTIC_DATA, 0x0020),
    (PacketFlag::CHECKING_DISABLED, 0x0010),
];

pub fn lib_flags(bits: u16) -> PacketFlag {
    let mut f = PacketFlag::empty();
    for (pf, b) in ALL_FLAGS {
        if bits & b != 0 {
            f |= pf;
        }
    }
    f
}

fn int(fs: &[F], i: usize) -> Result<u64, String> {
    match fs.get(i) {
        Some(F::Int(v)) => Ok(*v),
        o => Err(format!("field {} not Int: {:?}", i, o)),
    }
}
fn bytes(fs: &[F], i: usize) -> Result<&[u8], String> {
    match fs.get(i) {
        Some(F::Bytes(v)) => Ok(&v[..]),
        o => Err(format!("field {} not Bytes: {:?}", i, o)),
    }
}
fn name(fs: &[F], i: usize) -> Result<Name<'_>, String> {
    match fs.get(i) {
        Some(F::Name(n)) => Ok(lib_name(n)),
        o => Err(format!("field {} not Name: {:?}", i, o)),
    }
}
fn pairs(fs: &[F], i: usize) -> Result<&[(u16, Vec<u8>)], String> {
    match fs.get(i) {
        Some(F::Pairs(v)) => Ok(&v[..]),
        o => Err(format!("field {} not Pairs: {:?}", i, o)),
    }
}

pub fn lib_opt(e: &EdnsM) -> OPT<'_> {
    OPT {
        opt_codes: e
            .opts
            .iter()
            .map(|(c, d)| OPTCode {
                code: *c,
                data: Cow::Borrowed(&d[..]),
            })
            .collect(),
        udp_packet_size: e.udp,
        version: e.version,
    }
}

pub fn lib_rdata(rtype: u16, rd: &Rd) -> Result<RData<'_>, String> {
    let fs = match rd {
        Rd::Opaque(v) => {
            if v.is_empty() {
                return Ok(RData::Empty(TYPE::from(rtype)));
            }
            if schema(rtype).is_some() {
                return Err(format!("opaque non-empty rdata for typed code {}", rtype));
            }
            return Ok(RData::NULL(
                rtype,
                NULL::new(v).map_err(|e| format!("NULL::new {:?}", e))?,
            ));
        }
        Rd::Fields(fs) => &fs[..],
    };
    Ok(match rtype {
        1 => RData::A(A {
            address: int(fs, 0)? as u32,
        }),
        28 => {
            let b = bytes(fs, 0)?;
            let mut a = [0u8; 16];
            a.copy_from_slice(b);
            RData::AAAA(AAAA {
                address: u128::from_be_bytes(a),
            })
        }
        2 => RData::NS(NS(name(fs, 0)?)),
        3 => RData::MD(MD(name(fs, 0)?)),
        4 => RData::MF(MF(name(fs, 0)?)),
        5 => RData::CNAME(CNAME(name(fs, 0)?)),
        7 => RData::MB(MB(name(fs, 0)?)),
        8 => RData::MG(MG(name(fs, 0)?)),
        9 => RData::MR(MR(name(fs, 0)?)),
        12 => RData::PTR(PTR(name(fs, 0)?)),
        23 => RData::NSAP_PTR(NSAP_PTR(name(fs, 0)?)),
        6 => RData::SOA(SOA {
            mname: name(fs, 0)?,
            rname: name(fs, 1)?,
            serial: int(fs, 2)? as u32,
            refresh: int(fs, 3)? as u32 as i32,
            retry: int(fs, 4)? as u32 as i32,
            expire: int(fs, 5)? as u32 as i32,
            minimum: int(fs, 6)? as u32,
        }),
        11 => RData::WKS(WKS {
            address: int(fs, 0)? as u32,
            protocol: int(fs, 1)? as u8,
            bit_map: Cow::Borrowed(bytes(fs, 2)?),
        }),
        13 => RData::HINFO(HINFO {
            cpu: cs(bytes(fs, 0)?)?,
            os: cs(bytes(fs, 1)?)?,
        }),
        14 => RData::MINFO(MINFO {
            rmailbox: name(fs, 0)?,
            emailbox: name(fs, 1)?,
        }),
        15 => RData::MX(MX {
            preference: int(fs, 0)? as u16,
            exchange: name(fs, 1)?,
        }),
        16 => {
            let l = match fs.first() {
                Some(F::List(l)) => l,
                o => return Err(format!("TXT field {:?}", o)),
            };
            let mut t = TXT::new();
            for s in l {
                t.add_char_string(cs(s)?);
            }
            RData::TXT(t)
        }
        17 => RData::RP(RP {
            mbox: name(fs, 0)?,
            txt: name(fs, 1)?,
        }),
        18 => RData::AFSDB(AFSDB {
            subtype: int(fs, 0)? as u16,
            hostname: name(fs, 1)?,
        }),
        20 => RData::ISDN(ISDN {
            address: cs(bytes(fs, 0)?)?,
            sa: cs(bytes(fs, 1)?)?,
        }),
        21 => RData::RouteThrough(RouteThrough {
            preference: int(fs, 0)? as u16,
            intermediate_host: name(fs, 1)?,
        }),
        22 => RData::NSAP(NSAP {
            afi: int(fs, 0)? as u8,
            idi: int(fs, 1)? as u16,
            dfi: int(fs, 2)? as u8,
            aa: int(fs, 3)? as u32,
            rsvd: int(fs, 4)? as u16,
            rd: int(fs, 5)? as u16,
            area: int(fs, 6)? as u16,
            id: int(fs, 7)?,
            sel: int(fs, 8)? as u8,
        }),
        29 => RData::LOC(LOC {
            version: int(fs, 0)? as u8,
            size: int(fs, 1)? as u8,
            horizontal_precision: int(fs, 2)? as u8,
            vertical_precision: int(fs, 3)? as u8,
            latitude: int(fs, 4)? as u32 as i32,
            longitude: int(fs, 5)? as u32 as i32,
            altitude: int(fs, 6)? as u32 as i32,
        }),
        33 => RData::SRV(SRV {
            priority: int(fs, 0)? as u16,
            weight: int(fs, 1)? as u16,
            port: int(fs, 2)? as u16,
            target: name(fs, 3)?,
        }),
        35 => RData::NAPTR(NAPTR {
            order: int(fs, 0)? as u16,
            preference: int(fs, 1)? as u16,
            flags: cs(bytes(fs, 2)?)?,
            services: cs(bytes(fs, 3)?)?,
            regexp: cs(bytes(fs, 4)?)?,
            replacement: name(fs, 5)?,
        }),
        36 => RData::KX(KX {
            preference: int(fs, 0)? as u16,
            exchanger: name(fs, 1)?,
        }),
        37 => RData::CERT(CERT {
            type_code: int(fs, 0)? as u16,
            key_tag: int(fs, 1)? as u16,
            algorithm: int(fs, 2)? as u8,
            certificate: Cow::Borrowed(bytes(fs, 3)?),
        }),
        41 => RData::OPT(OPT {
            opt_codes: pairs(fs, 0)?
                .iter()
                .map(|(c, d)| OPTCode {
                    code: *c,
                    data: Cow::Borrowed(&d[..]),
                })
                .collect(),
            udp_packet_size: 0,
            version: 0,
        }),
        43 => RData::DS(DS {
            key_tag: int(fs, 0)? as u16,
            algorithm: int(fs, 1)? as u8,
            digest_type: int(fs, 2)? as u8,
            digest: Cow::Borrowed(bytes(fs, 3)?),
        }),
        45 => {
            let gateway = match fs.get(3) {
                Some(F::Gw(GwM::None)) => Gateway::None,
                Some(F::Gw(GwM::V4(a))) => Gateway::IPv4(Ipv4Addr::from(*a)),
                Some(F::Gw(GwM::V6(a))) => Gateway::IPv6(Ipv6Addr::from(*a)),
                Some(F::Gw(GwM::Name(n))) => Gateway::Domain(lib_name(n)),
                o => return Err(format!("IPSECKEY gateway {:?}", o)),
            };
            RData::IPSECKEY(IPSECKEY {
                precedence: int(fs, 0)? as u8,
                algorithm: int(fs, 2)? as u8,
                gateway,
                public_key: Cow::Borrowed(bytes(fs, 4)?),
            })
        }
        46 => RData::RRSIG(RRSIG {
            type_covered: int(fs, 0)? as u16,
            algorithm: int(fs, 1)? as u8,
            labels: int(fs, 2)? as u8,
            original_ttl: int(fs, 3)? as u32,
            signature_expiration: int(fs, 4)? as u32,
            signature_inception: int(fs, 5)? as u32,
            key_tag: int(fs, 6)? as u16,
            signer_name: name(fs, 7)?,
            signature: Cow::Borrowed(bytes(fs, 8)?),
        }),
        47 => RData::NSEC(NSEC {
            next_name: name(fs, 0)?,
            type_bit_maps: pairs(fs, 1)?
                .iter()
                .map(|(w, b)| TypeBitMap {
                    window_block: *w as u8,
                    bitmap: Cow::Borrowed(&b[..]),
                })
                .collect(),
        }),
        48 => RData::DNSKEY(DNSKEY {
            flags: int(fs, 0)? as u16,
            protocol: int(fs, 1)? as u8,
            algorithm: int(fs, 2)? as u8,
            public_key: Cow::Borrowed(bytes(fs, 3)?),
        }),
        49 => RData::DHCID(DHCID {
            identifier: int(fs, 0)? as u16,
            digest_type: int(fs, 1)? as u8,
            digest: Cow::Borrowed(bytes(fs, 2)?),
        }),
        63 => RData::ZONEMD(ZONEMD {
            serial: int(fs, 0)? as u32,
            scheme: int(fs, 1)? as u8,
            algorithm: int(fs, 2)? as u8,
            digest: Cow::Borrowed(bytes(fs, 3)?),
        }),
        64 | 65 => {
            let mut s = SVCB::new(int(fs, 0)? as u16, name(fs, 1)?);
            for (k, v) in pairs(fs, 2)? {
                s.set_param(*k, &v[..])
                    .map_err(|e| format!("set_param {:?}", e))?;
            }
            if rtype == 64 {
                RData::SVCB(s)
            } else {
                RData::HTTPS(HTTPS(s))
            }
        }
        108 => {
            let mut a = [0u8; 6];
            a.copy_from_slice(bytes(fs, 0)?);
            RData::EUI48(EUI48 { address: a })
        }
        109 => {
            let mut a = [0u8; 8];
            a.copy_from_slice(bytes(fs, 0)?);
            RData::EUI64(EUI64 { address: a })
        }
        257 => RData::CAA(CAA {
            flag: int(fs, 0)? as u8,
            tag: cs(bytes(fs, 1)?)?,
            value: Cow::Borrowed(bytes(fs, 2)?),
        }),
        t => return Err(format!("no constructor for typed code {}", t)),
    })
}

pub fn lib_record(r: &RecSem) -> Result<ResourceRecord<'_>, String> {
    Ok(ResourceRecord::new(
        lib_name(&r.name),
        lib_class(r.class)?,
        r.ttl,
        lib_rdata(r.rtype, &r.rd)?,
    )
    .with_cache_flush(r.flush))
}

pub fn lib_question(q: &QSem) -> Result<Question<'_>, String> {
    let qt = QTYPE::try_from(q.qtype).map_err(|e| format!("QTYPE {:?}", e))?;
    let qc = QCLASS::try_from(q.qclass).map_err(|e| format!("QCLASS {:?}", e))?;
    Ok(Question::new(lib_name(&q.name), qt, qc, q.unicast))
}

/// Build a library packet from the model through the public constructors only.
pub fn to_lib(p: &PktM) -> Result<Packet<'_>, String> {
    let mut pk = if p.flags & 0x8000 != 0 {
        Packet::new_reply(p.id)
    } else {
        Packet::new_query(p.id)
    };
    pk.set_flags(lib_flags(p.flags));
    *pk.opcode_mut() = lib_opcode(p.opcode).ok_or("unnamed opcode")?;
    *pk.rcode_mut() = lib_rcode(p.rcode).ok_or("unnamed rcode")?;
    if let Some(e) = &p.edns {
        *pk.opt_mut() = Some(lib_opt(e));
    }
    for q in &p.qs {
        pk.questions.push(lib_question(q)?);
    }
    for r in &p.secs[0] {
        pk.answers.push(lib_record(r)?);
    }
    for r in &p.secs[1] {
        pk.name_servers.push(lib_record(r)?);
    }
    for r in &p.secs[2] {
        pk.additional_records.push(lib_record(r)?);
    }
    Ok(pk)
}

// ---------------------------------------------------------------------------------------------
// library -> model

pub fn obs_name(n: &Name) -> NameM {
    n.get_labels()
        .iter()
        .map(|l| l.verif_bytes().to_vec())
        .collect()
}

fn ob(c: &CharacterString) -> F {
    F::Bytes(c.verif_bytes().to_vec())
}
fn on(n: &Name) -> F {
    F::Name(obs_name(n))
}

pub fn obs_rdata(rd: &RData) -> (u16, Rd) {
    let code: u16 = rd.type_code().into();
    let f = match rd {
        RData::A(a) => vec![F::Int(a.address as u64)],
        RData::AAAA(a) => vec![F::Bytes(a.address.to_be_bytes().to_vec())],
        RData::NS(n) => vec![on(&n.0)],
        RData::MD(n) => vec![on(&n.0)],
        RData::MF(n) => vec![on(&n.0)],
        RData::CNAME(n) => vec![on(&n.0)],
        RData::MB(n) => vec![on(&n.0)],
        RData::MG(n) => vec![on(&n.0)],
        RData::MR(n) => vec![on(&n.0)],
        RData::PTR(n) => vec![on(&n.0)],
        RData::NSAP_PTR(n) => vec![on(&n.0)],
        RData::SOA(s) => vec![
            on(&s.mname),
            on(&s.rname),
            F::Int(s.serial as u64),
            F::Int(s.refresh as u32 as u64),
            F::Int(s.retry as u32 as u64),
            F::Int(s.expire as u32 as u64),
            F::Int(s.minimum as u64),
        ],
        RData::WKS(w) => vec![
            F::Int(w.address as u64),
            F::Int(w.protocol as u64),
            F::Bytes(w.bit_map.to_vec()),
        ],
        RData::HINFO(h) => vec![ob(&h.cpu), ob(&h.os)],
        RData::MINFO(m) => vec![on(&m.rmailbox), on(&m.emailbox)],
        RData::MX(m) => vec![F::Int(m.preference as u64), on(&m.exchange)],
        RData::TXT(t) => vec![F::List(
            t.verif_strings().into_iter().map(|s| s.to_vec()).collect(),
        )],
        RData::RP(r) => vec![on(&r.mbox), on(&r.txt)],
        RData::AFSDB(a) => vec![F::Int(a.subtype as u64), on(&a.hostname)],
        RData::ISDN(i) => vec![ob(&i.address), ob(&i.sa)],
        RData::RouteThrough(r) => vec![F::Int(r.preference as u64), on(&r.intermediate_host)],
        RData::NSAP(n) => vec![
            F::Int(n.afi as u64),
            F::Int(n.idi as u64),
            F::Int(n.dfi as u64),
            F::Int(n.aa as u64),
            F::Int(n.rsvd as u64),
            F::Int(n.rd as u64),
            F::Int(n.area as u64),
            F::Int(n.id),
            F::Int(n.sel as u64),
        ],
        RData::LOC(l) => vec![
            F::Int(l.version as u64),
            F::Int(l.size as u64),
            F::Int(l.horizontal_precision as u64),
            F::Int(l.vertical_precision as u64),
            F::Int(l.latitude as u32 as u64),
            F::Int(l.longitude as u32 as u64),
            F::Int(l.altitude as u32 as u64),
        ],
        RData::SRV(s) => vec![
            F::Int(s.priority as u64),
            F::Int(s.weight as u64),
            F::Int(s.port as u64),
            on(&s.target),
        ],
        RData::NAPTR(n) => vec![
            F::Int(n.order as u64),
            F::Int(n.preference as u64),
            ob(&n.flags),
            ob(&n.services),
            ob(&n.regexp),
            on(&n.replacement),
        ],
        RData::KX(k) => vec![F::Int(k.preference as u64), on(&k.exchanger)],
        RData::CERT(c) => vec![
            F::Int(c.type_code as u64),
            F::Int(c.key_tag as u64),
            F::Int(c.algorithm as u64),
            F::Bytes(c.certificate.to_vec()),
        ],
        RData::OPT(o) => vec![F::Pairs(
            o.opt_codes
                .iter()
                .map(|c| (c.code, c.data.to_vec()))
                .collect(),
        )],
        RData::DS(d) => vec![
            F::Int(d.key_tag as u64),
            F::Int(d.algorithm as u64),
            F::Int(d.digest_type as u64),
            F::Bytes(d.digest.to_vec()),
        ],
        RData::IPSECKEY(k) => {
            let (gt, gw) = match &k.gateway {
                Gateway::None => (0, GwM::None),
                Gateway::IPv4(a) => (1, GwM::V4(a.octets())),
                Gateway::IPv6(a) => (2, GwM::V6(a.octets())),
                Gateway::Domain(n) => (3, GwM::Name(obs_name(n))),
            };
            vec![
                F::Int(k.precedence as u64),
                F::Int(gt),
                F::Int(k.algorithm as u64),
                F::Gw(gw),
                F::Bytes(k.public_key.to_vec()),
            ]
        }
        RData::RRSIG(r) => vec![
            F::Int(r.type_covered as u64),
            F::Int(r.algorithm as u64),
            F::Int(r.labels as u64),
            F::Int(r.original_ttl as u64),
            F::Int(r.signature_expiration as u64),
            F::Int(r.signature_inception as u64),
            F::Int(r.key_tag as u64),
            on(&r.signer_name),
            F::Bytes(r.signature.to_vec()),
        ],
        RData::NSEC(n) => vec![
            on(&n.next_name),
            F::Pairs(
                n.type_bit_maps
                    .iter()
                    .map(|t| (t.window_block as u16, t.bitmap.to_vec()))
                    .collect(),
            ),
        ],
        RData::DNSKEY(d) => vec![
            F::Int(d.flags as u64),
            F::Int(d.protocol as u64),
            F::Int(d.algorithm as u64),
            F::Bytes(d.public_key.to_vec()),
        ],
        RData::DHCID(d) => vec![
            F::Int(d.identifier as u64),
            F::Int(d.digest_type as u64),
            F::Bytes(d.digest.to_vec()),
        ],
        RData::ZONEMD(z) => vec![
            F::Int(z.serial as u64),
            F::Int(z.scheme as u64),
            F::Int(z.algorithm as u64),
            F::Bytes(z.digest.to_vec()),
        ],
        RData::SVCB(s) => obs_svcb(s),
        RData::HTTPS(h) => obs_svcb(&h.0),
        RData::EUI48(e) => vec![F::Bytes(e.address.to_vec())],
        RData::EUI64(e) => vec![F::Bytes(e.address.to_vec())],
        RData::CAA(c) => vec![F::Int(c.flag as u64), ob(&c.tag), F::Bytes(c.value.to_vec())],
        RData::NULL(_, n) => return (code, Rd::Opaque(n.get_data().to_vec())),
        RData::Empty(_) => return (code, Rd::Opaque(vec![])),
    };
    (code, Rd::Fields(f))
}

fn obs_svcb(s: &SVCB) -> Vec<F> {
    vec![
        F::Int(s.priority as u64),
        on(&s.target),
        F::Pairs(s.iter_params().map(|(k, v)| (k, v.to_vec())).collect()),
    ]
}

pub fn obs_record(r: &ResourceRecord) -> RecSem {
    let (rtype, rd) = obs_rdata(&r.rdata);
    let class = if let RData::OPT(o) = &r.rdata {
        o.udp_packet_size
    } else {
        r.class as u16
    };
    RecSem {
        name: obs_name(&r.name),
        rtype,
        class,
        flush: r.cache_flush,
        ttl: r.ttl,
        rd,
    }
}

pub fn obs_question(q: &Question) -> QSem {
    QSem {
        name: obs_name(&q.qname),
        qtype: q.qtype.into(),
        qclass: q.qclass.into(),
        unicast: q.unicast_response,
    }
}

pub fn obs_flags(p: &Packet) -> u16 {
    let mut f = 0;
    for (pf, b) in ALL_FLAGS {
        if p.has_flags(pf) {
            f |= b;
        }
    }
    f
}

pub fn observe(p: &Packet) -> PktM {
    PktM {
        id: p.id(),
        flags: obs_flags(p),
        opcode: obs_opcode(p.opcode()),
        rcode: obs_rcode(p.rcode()),
        edns: p.opt().map(|o| EdnsM {
            udp: o.udp_packet_size,
            version: o.version,
            opts: o
                .opt_codes
                .iter()
                .map(|c| (c.code, c.data.to_vec()))
                .collect(),
        }),
        qs: p.questions.iter().map(obs_question).collect(),
        secs: [
            p.answers.iter().map(obs_record).collect(),
            p.name_servers.iter().map(obs_record).collect(),
            p.additional_records.iter().map(obs_record).collect(),
        ],
    }
}
