//! Monitors: process-wide panic recorder, allocation meter, cpu meter + watchdog.
//!
//! The monitors keep their own state in thread-locals / atomics / a mutex that library code never
//! touches, so they cannot introduce a race or poison a lock of the system under test.

use std::alloc::{GlobalAlloc, Layout, System};
use std::cell::{Cell, RefCell};
use std::panic::{self, AssertUnwindSafe};
use std::sync::atomic::{AtomicBool, AtomicU64, AtomicUsize, Ordering};
use std::sync::Mutex;

// ---------------------------------------------------------------------------------------------
// allocation meter

pub struct MeterAlloc;

thread_local! {
    static LIVE: Cell<usize> = const { Cell::new(0) };
    static PEAK: Cell<usize> = const { Cell::new(0) };
    static COUNT: Cell<usize> = const { Cell::new(0) };
}

static METER_ON: AtomicBool = AtomicBool::new(true);

unsafe impl GlobalAlloc for MeterAlloc {
    unsafe fn alloc(&self, layout: Layout) -> *mut u8 {
        let p = System.alloc(layout);
        if !p.is_null() && METER_ON.load(Ordering::Relaxed) {
            note_alloc(layout.size());
        }
        p
    }
    unsafe fn dealloc(&self, ptr: *mut u8, layout: Layout) {
        System.dealloc(ptr, layout);
        if METER_ON.load(Ordering::Relaxed) {
            note_free(layout.size());
        }
    }
    unsafe fn realloc(&self, ptr: *mut u8, layout: Layout, new_size: usize) -> *mut u8 {
        let p = System.realloc(ptr, layout, new_size);
        if !p.is_null() && METER_ON.load(Ordering::Relaxed) {
            note_free(layout.size());
            note_alloc(new_size);
        }
        p
    }
    unsafe fn alloc_zeroed(&self, layout: Layout) -> *mut u8 {
        let p = System.alloc_zeroed(layout);
        if !p.is_null() && METER_ON.load(Ordering::Relaxed) {
            note_alloc(layout.size());
        }
        p
    }
}

#[inline]
fn note_alloc(n: usize) {
    let _ = LIVE.try_with(|l| {
        let v = l.get().wrapping_add(n);
        l.set(v);
        let _ = PEAK.try_with(|p| {
            if v > p.get() && v < (1usize << 62) {
                p.set(v)
            }
        });
    });
    let _ = COUNT.try_with(|c| c.set(c.get().wrapping_add(1)));
}

#[inline]
fn note_free(n: usize) {
    let _ = LIVE.try_with(|l| l.set(l.get().wrapping_sub(n)));
}

/// (Used under Miri / valgrind / ASan, which distort heap accounting.)
pub fn set_meter(on: bool) {
    METER_ON.store(on, Ordering::Relaxed)
}

/// Reset the calling thread's meter: live := 0, peak := 0.
pub fn heap_reset() {
    LIVE.with(|l| l.set(0));
    PEAK.with(|p| p.set(0));
    COUNT.with(|c| c.set(0));
}

/// Peak live heap (bytes) allocated by the calling thread since `heap_reset`.
pub fn heap_peak() -> usize {
    PEAK.with(|p| p.get())
}

// ---------------------------------------------------------------------------------------------
// cpu meter

pub fn thread_cpu_ns() -> u64 {
    #[cfg(miri)]
    {
        0
    }
    #[cfg(not(miri))]
    unsafe {
        let mut ts: libc::timespec = std::mem::zeroed();
        libc::clock_gettime(libc::CLOCK_THREAD_CPUTIME_ID, &mut ts);
        ts.tv_sec as u64 * 1_000_000_000 + ts.tv_nsec as u64
    }
}

// ---------------------------------------------------------------------------------------------
// panic recorder

#[derive(Clone, Debug)]
pub struct PanicRec {
    pub thread: String,
    pub location: String,
    pub message: String,
}

thread_local! {
    static LAST_PANIC: RefCell<Option<PanicRec>> = const { RefCell::new(None) };
    static IN_GUARD: Cell<bool> = const { Cell::new(false) };
}

static ALL_PANICS: Mutex<Vec<PanicRec>> = Mutex::new(Vec::new());
static FOREIGN_PANICS: AtomicUsize = AtomicUsize::new(0);
static HOOK_INSTALLED: AtomicBool = AtomicBool::new(false);

pub fn install_panic_hook() {
    if HOOK_INSTALLED.swap(true, Ordering::SeqCst) {
        return;
    }
    panic::set_hook(Box::new(|info| {
        let location = info
            .location()
            .map(|l| format!("{}:{}", l.file(), l.line()))
            .unwrap_or_else(|| "?".into());
        let message = if let Some(s) = info.payload().downcast_ref::<&str>() {
            s.to_string()
        } else if let Some(s) = info.payload().downcast_ref::<String>() {
            s.clone()
        } else {
            "<non-string payload>".into()
        };
        let thread = std::thread::current()
            .name()
            .unwrap_or("<unnamed>")
            .to_string();
        let rec = PanicRec {
            thread,
            location,
            message,
        };
        let guarded = IN_GUARD.try_with(|g| g.get()).unwrap_or(false);
        if guarded {
            let _ = LAST_PANIC.try_with(|l| *l.borrow_mut() = Some(rec));
        } else {
            // a panic outside any guard: either a library-spawned thread (C14 wants those) or a
            // harness bug.  Recorded globally; the harness decides.
            FOREIGN_PANICS.fetch_add(1, Ordering::SeqCst);
            if let Ok(mut v) = ALL_PANICS.lock() {
                if v.len() < 10_000 {
                    v.push(rec.clone());
                }
            }
            if std::env::var_os("VERIF_SHOW_PANICS").is_some() {
                eprintln!("[panic outside guard] {:?}", rec);
            }
        }
    }));
}

/// Run `f`; a panic inside it is returned as `Err(PanicRec)` instead of unwinding further.
/// Odd while the watched (main worker) thread is inside an outermost guarded library call; the watchdog samples it.
pub static GUARD_SEQ: AtomicU64 = AtomicU64::new(0);
static WATCHED_THREAD: AtomicUsize = AtomicUsize::new(0);

fn on_watched_thread() -> bool {
    #[cfg(miri)]
    {
        false
    }
    #[cfg(not(miri))]
    {
        WATCHED_THREAD.load(Ordering::Relaxed) == unsafe { libc::pthread_self() } as usize
    }
}

pub fn guard<T>(f: impl FnOnce() -> T) -> Result<T, PanicRec> {
    let prev = IN_GUARD.with(|g| g.replace(true));
    let outermost = !prev && on_watched_thread();
    if outermost {
        GUARD_SEQ.fetch_add(1, Ordering::SeqCst);
    }
    LAST_PANIC.with(|l| *l.borrow_mut() = None);
    let r = panic::catch_unwind(AssertUnwindSafe(f));
    if outermost {
        GUARD_SEQ.fetch_add(1, Ordering::SeqCst);
    }
    IN_GUARD.with(|g| g.set(prev));
    match r {
        Ok(v) => Ok(v),
        Err(_) => Err(LAST_PANIC.with(|l| l.borrow_mut().take()).unwrap_or(PanicRec {
            thread: "?".into(),
            location: "?".into(),
            message: "panic (no record)".into(),
        })),
    }
}

/// Panics recorded outside any guard (library threads, tokio workers).
pub fn take_foreign_panics() -> Vec<PanicRec> {
    FOREIGN_PANICS.store(0, Ordering::SeqCst);
    std::mem::take(&mut *ALL_PANICS.lock().unwrap())
}

pub fn foreign_panic_count() -> usize {
    FOREIGN_PANICS.load(Ordering::SeqCst)
}

/// Strip the checkout prefix so that signatures are stable: "simple-dns/src/dns/name.rs:185".
pub fn short_loc(loc: &str) -> String {
    for marker in ["simple-dns/src", "simple-mdns/src"] {
        if let Some(i) = loc.find(marker) {
            return loc[i..].to_string();
        }
    }
    if let Some(i) = loc.find("/library/") {
        return format!("std{}", &loc[i + 8..]);
    }
    loc.to_string()
}

// ---------------------------------------------------------------------------------------------
// cpu watchdog: aborts the shard if one case burns more than `limit` CPU seconds.

pub static WD_CASE_START_NS: AtomicU64 = AtomicU64::new(u64::MAX);
static WD_CASE_TAG: Mutex<String> = Mutex::new(String::new());
static WD_CASE_BYTES: Mutex<Vec<u8>> = Mutex::new(Vec::new());

pub const EXIT_CPU_WATCHDOG: i32 = 97;
/// (property, replay file) while `replay` runs: a hang of the replayed case is then reported as the violation it is
pub static REPLAY_INFO: Mutex<Option<(String, String)>> = Mutex::new(None);

static CUR_IDX: AtomicU64 = AtomicU64::new(0);
static CUR_FAM_HASH: AtomicU64 = AtomicU64::new(0);
static CUR_FAM: Mutex<String> = Mutex::new(String::new());

/// Remember which case the worker is executing (for the watchdog's dump); cheap when the family does not change.
pub fn set_case(family: &str, idx: u64) {
    // progress trail for the parent: a Miri process stopped at its wall-clock cap is credited with the cases it began
    #[cfg(miri)]
    eprintln!("VERIF-TAKE {} {}", family, idx);
    CUR_IDX.store(idx, Ordering::Relaxed);
    let h = family.len() as u64 * 131 + family.as_bytes().first().copied().unwrap_or(0) as u64 * 31 + family.as_bytes().last().copied().unwrap_or(0) as u64;
    if CUR_FAM_HASH.load(Ordering::Relaxed) != h {
        if let Ok(mut f) = CUR_FAM.lock() {
            f.clear();
            f.push_str(family);
        }
        CUR_FAM_HASH.store(h, Ordering::Relaxed);
    }
}

/// Called by the worker thread before a monitored case (cheap unless `with_bytes`).
pub fn wd_begin(tag: &str, bytes: Option<&[u8]>) {
    #[cfg(miri)]
    {
        // no files under isolation: the last VERIF-CASE line before a Miri report identifies the case
        let hex: String = bytes.unwrap_or(&[]).iter().take(200).map(|b| format!("{:02x}", b)).collect();
        eprintln!("VERIF-CASE {} {}", tag, hex);
    }
    if let Some(path) = trace_file() {
        // crash localisation mode: persist the case before executing it
        let hex: String = bytes.unwrap_or(&[]).iter().map(|b| format!("{:02x}", b)).collect();
        let _ = std::fs::write(path, format!("{}\n{}", tag, hex));
    }
    if let Ok(mut t) = WD_CASE_TAG.lock() {
        t.clear();
        t.push_str(tag);
    }
    if let Some(b) = bytes {
        if let Ok(mut v) = WD_CASE_BYTES.lock() {
            v.clear();
            v.extend_from_slice(b);
        }
    }
    WD_CASE_START_NS.store(thread_cpu_ns(), Ordering::SeqCst);
}

fn trace_file() -> Option<&'static String> {
    static T: std::sync::OnceLock<Option<String>> = std::sync::OnceLock::new();
    T.get_or_init(|| std::env::var("VERIF_TRACE_FILE").ok()).as_ref()
}

pub fn wd_end() {
    WD_CASE_START_NS.store(u64::MAX, Ordering::SeqCst);
}

/// Spawn the watchdog for the *calling* thread.  `dump_path`: where the offending case is written.
#[cfg(not(miri))]
pub fn spawn_cpu_watchdog(limit_s: f64, dump_path: String) {
    let worker = unsafe { libc::pthread_self() } as usize;
    WATCHED_THREAD.store(worker, Ordering::SeqCst);
    std::thread::Builder::new()
        .name("verif-watchdog".into())
        .spawn(move || {
            let mut clk: libc::clockid_t = 0;
            let rc = unsafe { libc::pthread_getcpuclockid(worker as libc::pthread_t, &mut clk) };
            if rc != 0 {
                return;
            }
            let cpu_now = || {
                let mut ts: libc::timespec = unsafe { std::mem::zeroed() };
                unsafe { libc::clock_gettime(clk, &mut ts) };
                ts.tv_sec as u64 * 1_000_000_000 + ts.tv_nsec as u64
            };
            // one guarded library call (GUARD_SEQ odd and unchanged) may burn at most `limit_s` seconds of CPU
            let mut last_seq = u64::MAX;
            let mut cpu_at_first_seen = 0u64;
            loop {
                std::thread::sleep(std::time::Duration::from_millis(200));
                let seq = GUARD_SEQ.load(Ordering::SeqCst);
                let now = cpu_now();
                if seq % 2 == 0 || seq != last_seq {
                    last_seq = seq;
                    cpu_at_first_seen = now;
                    continue;
                }
                if now > cpu_at_first_seen && (now - cpu_at_first_seen) as f64 / 1e9 > limit_s {
                    if GUARD_SEQ.load(Ordering::SeqCst) != seq {
                        continue;
                    }
                    let tag = WD_CASE_TAG.lock().map(|t| t.clone()).unwrap_or_default();
                    let bytes = WD_CASE_BYTES.lock().map(|t| t.clone()).unwrap_or_default();
                    let fam = CUR_FAM.lock().map(|t| t.clone()).unwrap_or_default();
                    let idx = CUR_IDX.load(Ordering::Relaxed);
                    let hex: String = bytes.iter().map(|b| format!("{:02x}", b)).collect();
                    let j = serde_json::json!({
                        "kind": "cpu_watchdog", "case": tag, "bytes": hex, "family": fam, "idx": idx,
                        "cpu_s": (now - cpu_at_first_seen) as f64 / 1e9, "limit_s": limit_s
                    });
                    if let Ok(r) = REPLAY_INFO.lock() {
                        if let Some((prop, path)) = &*r {
                            println!("replay of {}: the replayed case does not terminate (more than {} s of CPU in one library call)", path, limit_s);
                            println!("VIOLATION property={} replay={}", prop, path);
                            std::process::exit(1);
                        }
                    }
                    let _ = std::fs::write(&dump_path, j.to_string());
                    eprintln!("[watchdog] a single guarded library call in case {}:{} exceeded {} s of CPU; aborting shard", fam, idx, limit_s);
                    std::process::exit(EXIT_CPU_WATCHDOG);
                }
            }
        })
        .ok();
}

#[cfg(miri)]
pub fn spawn_cpu_watchdog(_limit_s: f64, _dump_path: String) {}
