//! verif-harness: runtime-monitoring checks for the simple-dns / simple-mdns properties C01..C20.
//!
//!   harness run   <Cxx> --tier quick|thorough [--seed N] [--jobs N]     (parent: shards + evidence)
//!   harness shard <Cxx> --tier T --seed S --shard I --nshards N --out F (child)
//!   harness replay <file>
//!   harness selftest                                                     (reference codec cross-validation)

use verif_harness::*;

use ctx::{Ctx, Tier};
use serde_json::{json, Value};
use std::collections::{BTreeMap, HashSet};
use std::io::Write;
use std::path::PathBuf;

use std::process::{Command, Stdio};
use std::time::{Duration, Instant};

#[global_allocator]
static GLOBAL: monitor::MeterAlloc = monitor::MeterAlloc;

fn verif_root() -> PathBuf {
    PathBuf::from(std::env::var("VERIF_ROOT").unwrap_or_else(|_| "/verif".into()))
}

fn arg_val(args: &[String], key: &str) -> Option<String> {
    args.iter()
        .position(|a| a == key)
        .and_then(|i| args.get(i + 1).cloned())
}

fn parse_tier(args: &[String]) -> Tier {
    let t = std::env::var("VERIF_TIER")
        .ok()
        .filter(|s| !s.is_empty())
        .or_else(|| arg_val(args, "--tier"))
        .unwrap_or_else(|| "quick".into());
    if t == "thorough" {
        Tier::Thorough
    } else {
        Tier::Quick
    }
}

fn parse_seed(args: &[String]) -> u64 {
    arg_val(args, "--seed")
        .or_else(|| std::env::var("VERIF_SEED").ok())
        .and_then(|s| s.trim().parse::<u64>().ok())
        .unwrap_or(1)
}

fn main() {
    let args: Vec<String> = std::env::args().collect();
    if args.len() < 2 {
        eprintln!("usage: harness run|shard|replay|selftest ...");
        std::process::exit(2);
    }
    monitor::install_panic_hook();
    let code = match args[1].as_str() {
        "run" => run_parent(&args[2..]),
        "shard" => run_shard(&args[2..]),
        "replay" => run_replay(&args[2..]),
        "selftest" => selftest::main(),
        "noop" => 0,
        "dump-corpus" => {
            let n = tools::dump_corpus(std::path::Path::new(&args[2]), parse_seed(&args));
            println!("{} files", n);
            0
        }
        _ => {
            eprintln!("unknown subcommand");
            2
        }
    };
    std::process::exit(code);
}

// ---------------------------------------------------------------------------------------------
// child

fn run_shard(args: &[String]) -> i32 {
    let prop = args[0].clone();
    let tier = parse_tier(args);
    let seed = parse_seed(args);
    let shard: u64 = arg_val(args, "--shard").unwrap().parse().unwrap();
    let nshards: u64 = arg_val(args, "--nshards").unwrap().parse().unwrap();
    let out = arg_val(args, "--out").unwrap();
    let mut ctx = Ctx::new(&prop, tier, seed, shard, nshards);
    if let Some(b) = arg_val(args, "--budget") {
        ctx.budget = Duration::from_secs(b.parse().unwrap());
    }
    if std::env::var_os("VERIF_SLOW_TOOL").is_some() || cfg!(miri) || args.iter().any(|a| a == "--slow-tool") {
        ctx.slow_tool = true;
        monitor::set_meter(false);
    }
    // every guarded library call of every check is watched: more than 10 s of CPU in a single call ends the shard
    // (reported by the parent as "does not terminate"); under valgrind the allowance is 25x
    monitor::spawn_cpu_watchdog(if ctx.slow_tool { 250.0 } else { 10.0 }, format!("{}.watchdog", out));
    let Some(p) = props::find(&prop) else {
        eprintln!("unknown property {}", prop);
        return 2;
    };
    (p.run)(&mut ctx);
    let foreign = monitor::take_foreign_panics();
    let mut j = ctx.to_json();
    j["foreign_panics"] = json!(foreign
        .iter()
        .map(|p| json!({"thread": p.thread, "location": p.location, "message": p.message}))
        .collect::<Vec<_>>());
    // distinct hashes as a binary side file
    let mut hs: Vec<u64> = ctx.hashes.iter().copied().collect();
    hs.sort_unstable();
    let mut bytes = Vec::with_capacity(hs.len() * 8);
    for h in hs {
        bytes.extend_from_slice(&h.to_le_bytes());
    }
    if out == "-" {
        // tool sub-runs (Miri with isolation on cannot write files): summary on stdout
        j["distinct_local"] = json!(ctx.hashes.len());
        println!("VERIF-SHARD-JSON {}", j);
        return 0;
    }
    std::fs::write(format!("{}.hashes", out), bytes).unwrap();
    std::fs::write(&out, j.to_string()).unwrap();
    0
}

// ---------------------------------------------------------------------------------------------
// replay

fn run_replay(args: &[String]) -> i32 {
    let path = &args[0];
    let Ok(text) = std::fs::read_to_string(path) else {
        eprintln!("cannot read {}", path);
        return 2;
    };
    let Ok(j) = serde_json::from_str::<Value>(&text) else {
        eprintln!("not json: {}", path);
        return 2;
    };
    let prop = j["property"].as_str().unwrap_or("").to_string();
    let tier = if j["tier"].as_str() == Some("thorough") {
        Tier::Thorough
    } else {
        Tier::Quick
    };
    let seed = j["seed"].as_u64().unwrap_or(1);
    let Some(p) = props::find(&prop) else {
        eprintln!("unknown property {}", prop);
        return 2;
    };
    let mut ctx = Ctx::new(&prop, tier, seed, 0, 1);
    let case = j["case"].clone();
    if let (Some(f), Some(i)) = (case["family"].as_str(), case["idx"].as_u64()) {
        ctx.only = Some((f.to_string(), i));
    }
    ctx.replay_case = Some(case);
    *monitor::REPLAY_INFO.lock().unwrap() = Some((prop.clone(), path.clone()));
    monitor::spawn_cpu_watchdog(10.0, format!("{}.watchdog", path));
    (p.run)(&mut ctx);
    println!(
        "replay of {}: {} case(s) executed, {} violation(s)",
        path,
        ctx.evals,
        ctx.violations.len()
    );
    for v in &ctx.violations {
        println!("  [{}] {} :: {}", v.clause, v.signature, v.detail);
    }
    // a check may report a violation and leave the case before registering it as evaluated
    if ctx.evals == 0 && ctx.violations.is_empty() {
        println!("INCONCLUSIVE: the replayed case was not reached");
        return 0;
    }
    if ctx.violations.is_empty() {
        0
    } else {
        println!("VIOLATION property={} replay={}", prop, path);
        1
    }
}

// ---------------------------------------------------------------------------------------------
// parent

/// number of distinct u64 values in the union of sorted little-endian files
fn union_count(files: &[String]) -> u64 {
    use std::cmp::Reverse;
    use std::collections::BinaryHeap;
    use std::io::Read;
    let mut readers: Vec<std::io::BufReader<std::fs::File>> = files
        .iter()
        .filter_map(|f| std::fs::File::open(f).ok())
        .map(|f| std::io::BufReader::with_capacity(1 << 20, f))
        .collect();
    let mut next = |r: &mut std::io::BufReader<std::fs::File>| -> Option<u64> {
        let mut b = [0u8; 8];
        r.read_exact(&mut b).ok().map(|_| u64::from_le_bytes(b))
    };
    let mut heap: BinaryHeap<Reverse<(u64, usize)>> = BinaryHeap::new();
    for i in 0..readers.len() {
        if let Some(v) = next(&mut readers[i]) {
            heap.push(Reverse((v, i)));
        }
    }
    let mut count = 0u64;
    let mut last: Option<u64> = None;
    while let Some(Reverse((v, i))) = heap.pop() {
        if last != Some(v) {
            count += 1;
            last = Some(v);
        }
        if let Some(n) = next(&mut readers[i]) {
            heap.push(Reverse((n, i)));
        }
    }
    count
}

struct ShardRes {
    json: Option<Value>,
    status: String,
    hashes: Vec<u64>,
}

fn spawn_shard(
    exe: &std::path::Path,
    prop: &str,
    tier: Tier,
    seed: u64,
    shard: u64,
    nshards: u64,
    out: &str,
    budget: u64,
    trace: Option<&str>,
) -> std::process::Child {
    let mut c = Command::new(exe);
    c.arg("shard")
        .arg(prop)
        .arg("--tier")
        .arg(tier.name())
        .arg("--seed")
        .arg(seed.to_string())
        .arg("--shard")
        .arg(shard.to_string())
        .arg("--nshards")
        .arg(nshards.to_string())
        .arg("--out")
        .arg(out)
        .arg("--budget")
        .arg(budget.to_string())
        .env_remove("VERIF_TIER")
        .stdout(Stdio::null())
        .stderr(Stdio::piped());
    if let Some(t) = trace {
        c.env("VERIF_TRACE_FILE", t);
    }
    c.spawn().expect("spawn shard")
}

fn run_parent(args: &[String]) -> i32 {
    let prop = args[0].clone();
    let tier = parse_tier(args);
    let seed = parse_seed(args);
    let Some(p) = props::find(&prop) else {
        eprintln!("unknown property {}", prop);
        return 2;
    };
    let ncpu = std::thread::available_parallelism()
        .map(|n| n.get())
        .unwrap_or(4) as u64;
    let jobs: u64 = arg_val(args, "--jobs")
        .and_then(|s| s.parse().ok())
        .unwrap_or(ncpu.min(16));
    let nshards = if p.single_process { 1 } else { jobs };
    let root = verif_root();
    let tmp = root.join("target").join("tmp").join(format!(
        "{}-{}-{}-{}",
        prop,
        tier.name(),
        seed,
        std::process::id()
    ));
    let _ = std::fs::remove_dir_all(&tmp);
    std::fs::create_dir_all(&tmp).unwrap();
    std::fs::create_dir_all(root.join("evidence")).unwrap();
    std::fs::create_dir_all(root.join("replays")).unwrap();
    let exe = std::env::current_exe().unwrap();
    let t0 = Instant::now();
    let budget = tier.pick(p.budget_quick_s, p.budget_thorough_s);
    let wall_cap = Duration::from_secs(budget * 2 + 120);

    let mut children = Vec::new();
    for s in 0..nshards {
        let out = tmp.join(format!("shard{}.json", s));
        let child = spawn_shard(
            &exe,
            &prop,
            tier,
            seed,
            s,
            nshards,
            out.to_str().unwrap(),
            budget,
            None,
        );
        children.push((s, out, child));
    }
    let mut results: Vec<ShardRes> = Vec::new();
    let mut hash_files: Vec<String> = Vec::new();
    let mut extra_violations: Vec<Value> = Vec::new();
    let mut inconclusive: Vec<String> = Vec::new();
    for (s, out, mut child) in children {
        // wait with wall-clock cap
        let status = loop {
            match child.try_wait() {
                Ok(Some(st)) => break Some(st),
                Ok(None) => {
                    if t0.elapsed() > wall_cap {
                        let _ = child.kill();
                        let _ = child.wait();
                        break None;
                    }
                    std::thread::sleep(Duration::from_millis(50));
                }
                Err(_) => break None,
            }
        };
        let mut stderr = String::new();
        if let Some(mut e) = child.stderr.take() {
            use std::io::Read;
            let _ = e.read_to_string(&mut stderr);
        }
        let mut res = ShardRes {
            json: None,
            status: String::new(),
            hashes: vec![],
        };
        match status {
            None => {
                res.status = "wall-clock watchdog".into();
                inconclusive.push(format!(
                    "shard {} killed by the outer wall-clock watchdog after {:?}",
                    s, wall_cap
                ));
            }
            Some(st) if st.success() => {
                res.status = "ok".into();
                res.json = std::fs::read_to_string(&out)
                    .ok()
                    .and_then(|t| serde_json::from_str(&t).ok());
                hash_files.push(format!("{}.hashes", out.to_str().unwrap()));
                if res.json.is_none() {
                    inconclusive.push(format!("shard {} produced no summary", s));
                }
            }
            Some(st) if st.code() == Some(monitor::EXIT_CPU_WATCHDOG) => {
                res.status = "cpu watchdog".into();
                let dump = std::fs::read_to_string(format!("{}.watchdog", out.to_str().unwrap()))
                    .ok()
                    .and_then(|t| serde_json::from_str::<Value>(&t).ok())
                    .unwrap_or(json!({}));
                let fam = dump["family"].as_str().unwrap_or("?").to_string();
                let mut case = json!({"family": fam, "idx": dump["idx"], "tag": dump["case"]});
                if dump["bytes"].as_str().map(|b| !b.is_empty()).unwrap_or(false) && prop == "C01" {
                    case["bytes"] = dump["bytes"].clone();
                }
                extra_violations.push(json!({
                    "clause": "terminates-in-bounded-time",
                    "signature": format!("cpu-watchdog:{}", fam),
                    "detail": format!("a single library call in case {}:{} burned more than {} s of CPU (the call does not return)", fam, dump["idx"], dump["limit_s"]),
                    "case": case,
                    "count": 1
                }));
            }
            Some(st) => {
                // crash (abort, stack overflow, OOM kill…): re-run with per-case tracing to find the case
                res.status = format!("crashed: {:?}", st);
                let trace = tmp.join(format!("trace{}.txt", s));
                let out2 = tmp.join(format!("shard{}-rerun.json", s));
                let mut c2 = spawn_shard(
                    &exe,
                    &prop,
                    tier,
                    seed,
                    s,
                    nshards,
                    out2.to_str().unwrap(),
                    budget,
                    Some(trace.to_str().unwrap()),
                );
                let st2 = c2.wait().ok();
                let traced = std::fs::read_to_string(&trace).unwrap_or_default();
                if st2.map(|s| s.success()).unwrap_or(false) {
                    inconclusive.push(format!(
                        "shard {} crashed ({:?}) but the traced re-run did not; stderr: {}",
                        s,
                        st,
                        stderr.chars().take(400).collect::<String>()
                    ));
                } else {
                    let (tag, hexb) = traced.split_once('\n').unwrap_or((&traced, ""));
                    extra_violations.push(json!({
                        "clause": "process-survives",
                        "signature": format!("crash:{}", tag.split(':').next().unwrap_or("?")),
                        "detail": format!("shard process died ({:?}) while executing case {}; stderr tail: {}", st, tag,
                                          stderr.chars().rev().take(300).collect::<String>().chars().rev().collect::<String>()),
                        "case": {"bytes": hexb.trim(), "tag": tag},
                        "count": 1
                    }));
                }
            }
        }
        results.push(res);
    }

    // ---- tool sub-runs (thorough tier; VERIF_TOOLS=1 forces them, VERIF_TOOLS=0 disables them) ------------------
    let mut tool_summaries: Vec<Value> = Vec::new();
    let mut subrun_inconclusive: Vec<String> = Vec::new();
    let tools_on = match std::env::var("VERIF_TOOLS").ok().as_deref() {
        Some("0") => false,
        Some("1") => true,
        _ => tier == Tier::Thorough,
    };
    if tools_on {
        let (miri, fuzz, valgrind) = props::tools_for(&prop);
        let mut outs: Vec<tools::ToolOut> = Vec::new();
        if miri {
            outs.push(tools::run_miri(&prop, tier, seed, &root, jobs.min(16), &tmp));
        }
        if let Some(target) = fuzz {
            let secs = std::env::var("VERIF_FUZZ_SECS").ok().and_then(|s| s.parse().ok()).unwrap_or(tier.pick(45, 180));
            outs.push(tools::run_fuzz(&prop, target, tier, seed, &root, &tmp, secs));
        }
        if valgrind {
            outs.push(tools::run_valgrind_c14(tier, seed, &root, &tmp));
        }
        for o in outs {
            for j in o.shard_jsons {
                results.push(ShardRes { json: Some(j), status: "tool-subrun ok".into(), hashes: vec![] });
            }
            extra_violations.extend(o.violations);
            subrun_inconclusive.extend(o.inconclusive);
            tool_summaries.extend(o.summary);
        }
    }

    // merge
    let mut evals = 0u64;
    let mut enumerated_distinct = 0u64;
    let mut counters: BTreeMap<String, u64> = BTreeMap::new();
    let mut maxima: BTreeMap<String, f64> = BTreeMap::new();
    let mut samples: Vec<Value> = Vec::new();
    let mut notes: Vec<String> = Vec::new();
    let all_hashes: HashSet<u64> = HashSet::new();
    let mut viols: Vec<Value> = Vec::new();
    for v in extra_violations {
        if let Some(e) = viols.iter_mut().find(|e: &&mut Value| e["signature"] == v["signature"]) {
            let c = e["count"].as_u64().unwrap_or(1) + v["count"].as_u64().unwrap_or(1);
            e["count"] = json!(c);
        } else {
            viols.push(v);
        }
    }
    let mut foreign_panics: Vec<Value> = Vec::new();
    for r in &results {
        let Some(j) = &r.json else { continue };
        evals += j["evals"].as_u64().unwrap_or(0);
        enumerated_distinct += j["distinct_by_construction"].as_u64().unwrap_or(0);
        if let Some(c) = j["counters"].as_object() {
            for (k, v) in c {
                *counters.entry(k.clone()).or_insert(0) += v.as_u64().unwrap_or(0);
            }
        }
        if let Some(c) = j["maxima"].as_object() {
            for (k, v) in c {
                let v = v.as_f64().unwrap_or(0.0);
                let e = maxima.entry(k.clone()).or_insert(v);
                if v > *e {
                    *e = v
                }
            }
        }
        if let Some(c) = j["samples"].as_object() {
            for (k, v) in c {
                for s in v.as_array().into_iter().flatten() {
                    if samples.len() < 40 {
                        samples.push(json!({"family": k, "case": s}));
                    }
                }
            }
        }
        for n in j["notes"].as_array().into_iter().flatten() {
            let n = n.as_str().unwrap_or("").to_string();
            if !notes.contains(&n) {
                notes.push(n);
            }
        }
        for n in j["inconclusive"].as_array().into_iter().flatten() {
            let n = n.as_str().unwrap_or("").to_string();
            if !inconclusive.contains(&n) {
                inconclusive.push(n);
            }
        }
        for v in j["violations"].as_array().into_iter().flatten() {
            if let Some(e) = viols
                .iter_mut()
                .find(|e| e["signature"] == v["signature"])
            {
                let c = e["count"].as_u64().unwrap_or(1) + v["count"].as_u64().unwrap_or(1);
                e["count"] = json!(c);
            } else {
                viols.push(v.clone());
            }
        }
        for v in j["foreign_panics"].as_array().into_iter().flatten() {
            foreign_panics.push(v.clone());
        }
    }
    // a panic outside any guard is never silently dropped: properties that run library threads
    // (C14) convert them themselves; anything left here is reported as a harness-level finding.
    if !foreign_panics.is_empty() && !p.handles_foreign_panics {
        for fp in &foreign_panics {
            let loc = monitor::short_loc(fp["location"].as_str().unwrap_or("?"));
            let sig = format!("panic-outside-guard@{}", loc);
            if !viols.iter().any(|e| e["signature"] == sig.as_str()) {
                viols.push(json!({"clause":"never-panics","signature":sig,
                    "detail": format!("panic outside any guarded case: {}", fp), "case": {}, "count":1}));
            }
        }
    }

    let meta = (p.meta)();
    // exact size of the union of the shards' (sorted) hash files, by a streaming k-way merge
    let hashed_distinct = all_hashes.len() as u64 + union_count(&hash_files);
    let distinct = hashed_distinct + enumerated_distinct;
    if distinct < meta.min_distinct && inconclusive.is_empty() {
        inconclusive.push(format!(
            "only {} distinct non-trivial cases were observed (minimum for a verdict: {})",
            distinct, meta.min_distinct
        ));
    }

    // known findings
    let known: Vec<Value> = std::fs::read_to_string(root.join("known_findings.json"))
        .ok()
        .and_then(|t| serde_json::from_str::<Value>(&t).ok())
        .and_then(|j| j["findings"].as_array().cloned())
        .unwrap_or_default();
    let mut reported = 0;
    let mut lines: Vec<String> = Vec::new();
    let mut viol_summaries: Vec<Value> = Vec::new();
    for v in &viols {
        let sig = v["signature"].as_str().unwrap_or("");
        let k = known.iter().find(|k| {
            k["property"].as_str() == Some(prop.as_str())
                && k["status"].as_str() == Some("known")
                && k["signature"].as_str() == Some(sig)
        });
        if let Some(k) = k {
            lines.push(format!(
                "KNOWN-FINDING: property={} {}",
                prop,
                k["what"].as_str().unwrap_or(sig)
            ));
            viol_summaries.push(json!({"signature": sig, "known": true, "count": v["count"]}));
            continue;
        }
        reported += 1;
        let h = rng::fnv(sig.as_bytes());
        let path = root
            .join("replays")
            .join(format!("{}-{:016x}.json", prop, h));
        let rj = json!({
            "property": prop, "tier": tier.name(), "seed": seed,
            "clause": v["clause"], "signature": sig, "detail": v["detail"], "case": v["case"],
            "occurrences": v["count"]
        });
        let _ = std::fs::write(&path, serde_json::to_string_pretty(&rj).unwrap());
        eprintln!(
            "  [{}] {} (x{}): {}",
            v["clause"].as_str().unwrap_or(""),
            sig,
            v["count"],
            v["detail"].as_str().unwrap_or("").chars().take(600).collect::<String>()
        );
        lines.push(format!(
            "VIOLATION property={} replay={}",
            prop,
            path.display()
        ));
        viol_summaries.push(json!({"signature": sig, "clause": v["clause"], "known": false,
            "count": v["count"], "detail": v["detail"], "replay": path.display().to_string()}));
    }

    let verdict = if reported > 0 {
        "violated"
    } else if !inconclusive.is_empty() {
        "inconclusive"
    } else {
        "held"
    };
    let wall = t0.elapsed().as_secs_f64();
    if samples.is_empty() {
        samples.push(json!("no sample recorded"));
    }
    let evidence = json!({
        "property_id": prop,
        "tier": tier.name(),
        "seed": seed,
        "level": "exploration",
        "coverage": {
            "evaluations": evals,
            "distinct_nontrivial": distinct,
            "rule": meta.rule,
            "distinct_counted_by_hash": hashed_distinct,
            "distinct_by_construction_(exhaustive_families)": enumerated_distinct,
            "samples": samples,
            "exhaustive": meta.exhaustive,
            "observed": counters,
            "maxima": maxima,
            "shards": results.iter().map(|r| r.status.clone()).collect::<Vec<_>>(),
            "notes": notes,
            "inconclusive": inconclusive,
            "tool_runs": tool_summaries,
            "inconclusive_tool_subruns": subrun_inconclusive,
            "verdict": verdict,
            "violation_list": viol_summaries,
        },
        "assumptions": meta.assumptions,
        "wall_s": wall,
        "violations": reported,
    });
    let ev_path = root.join("evidence").join(format!("{}.json", prop));
    let mut f = std::fs::File::create(&ev_path).unwrap();
    f.write_all(serde_json::to_string_pretty(&evidence).unwrap().as_bytes())
        .unwrap();
    let _ = std::fs::remove_dir_all(&tmp);

    println!(
        "{} tier={} seed={} verdict={} evaluations={} distinct_nontrivial={} wall={:.1}s",
        prop,
        tier.name(),
        seed,
        verdict,
        evals,
        distinct,
        wall
    );
    for (k, v) in &counters {
        println!("  observed {} = {}", k, v);
    }
    for (k, v) in &maxima {
        println!("  max {} = {:.3}", k, v);
    }
    for n in &inconclusive {
        println!("INCONCLUSIVE: {}", n);
    }
    for t in &tool_summaries {
        println!("  tool {}", t);
    }
    for n in &subrun_inconclusive {
        println!("INCONCLUSIVE-SUBRUN: {}", n.chars().take(600).collect::<String>());
    }
    for l in &lines {
        println!("{}", l);
    }
    if reported > 0 {
        1
    } else {
        0
    }
}
