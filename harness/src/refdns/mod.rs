//! Independent reference codec for RFC 1035 messages and the 40 typed RDATA layouts.
//! Written from the RFC texts; NEVER calls the library under test.

use crate::rng::Rng;

pub type Lbl = Vec<u8>;
pub type NameM = Vec<Lbl>;

#[derive(Clone, Debug, PartialEq, Eq, Hash)]
pub enum GwM {
    None,
    V4([u8; 4]),
    V6([u8; 16]),
    Name(NameM),
}

/// One RDATA field value. Integers carry their width in the schema, not here.
#[derive(Clone, Debug, PartialEq, Eq, Hash)]
pub enum F {
    Int(u64),
    Bytes(Vec<u8>),
    Name(NameM),
    List(Vec<Vec<u8>>),
    Pairs(Vec<(u16, Vec<u8>)>),
    Gw(GwM),
}

#[derive(Clone, Debug, PartialEq, Eq, Hash)]
pub enum Rd {
    Fields(Vec<F>),
    Opaque(Vec<u8>),
}

#[derive(Clone, Debug, PartialEq, Eq, Hash)]
pub struct RRM {
    pub name: NameM,
    pub rtype: u16,
    /// raw 16-bit CLASS word (cache-flush bit included; UDP size for OPT)
    pub class: u16,
    pub ttl: u32,
    pub rd: Rd,
    /// bytes appended after the typed content and counted in RDLENGTH (malformed-input generators)
    pub extra: Vec<u8>,
    /// added to RDLENGTH without adding bytes (malformed-input generators)
    pub rdlen_delta: i32,
}

impl RRM {
    pub fn new(name: NameM, rtype: u16, class: u16, ttl: u32, rd: Rd) -> Self {
        RRM {
            name,
            rtype,
            class,
            ttl,
            rd,
            extra: vec![],
            rdlen_delta: 0,
        }
    }
}

#[derive(Clone, Debug, PartialEq, Eq, Hash)]
pub struct QM {
    pub name: NameM,
    pub qtype: u16,
    /// raw 16-bit QCLASS word (unicast-response bit included)
    pub qclass: u16,
}

#[derive(Clone, Debug, PartialEq, Eq, Hash, Default)]
pub struct MsgM {
    pub id: u16,
    pub flags: u16,
    pub qs: Vec<QM>,
    pub secs: [Vec<RRM>; 3],
    pub counts: Option<[u16; 4]>,
    pub trailing: Vec<u8>,
}

// ---------------------------------------------------------------------------------------------
// schema table

#[derive(Clone, Copy, Debug, PartialEq, Eq, Hash)]
pub enum Comp {
    /// RFC 1035 name: senders may (and the property says: do) compress
    Rfc1035,
    /// compressibility left open (RP, AFSDB, RT, NSAP-PTR)
    Open,
    /// must be written in full (receivers still decompress)
    Never,
}

#[derive(Clone, Copy, Debug, PartialEq, Eq)]
pub enum K {
    U8,
    U16,
    U24,
    U32,
    U48,
    Fixed(usize),
    Str,
    Name(Comp),
    Rest,
    /// one or more character-strings (TXT)
    Strs,
    /// (u16 code, u16 len, bytes)* (OPT)
    Opts,
    /// (u16 key, u16 len, bytes)* with strictly increasing keys (SVCB/HTTPS)
    Params,
    /// (u8 window, u8 len, bytes)* with strictly increasing windows (NSEC)
    Windows,
    /// IPSECKEY gateway, selected by the gateway-type field (field index 1)
    Gw,
}

impl K {
    pub fn int_width(self) -> Option<usize> {
        match self {
            K::U8 => Some(1),
            K::U16 => Some(2),
            K::U24 => Some(3),
            K::U32 => Some(4),
            K::U48 => Some(6),
            _ => None,
        }
    }
}

use Comp::*;
use K::*;

pub const TYPED_CODES: [u16; 40] = [
    1, 28, 2, 3, 4, 5, 7, 8, 9, 12, 13, 14, 15, 16, 6, 11, 33, 17, 18, 20, 21, 35, 22, 23, 29, 41,
    257, 64, 65, 108, 109, 37, 63, 36, 45, 48, 46, 43, 47, 49,
];

pub fn type_name(code: u16) -> &'static str {
    match code {
        1 => "A",
        2 => "NS",
        3 => "MD",
        4 => "MF",
        5 => "CNAME",
        6 => "SOA",
        7 => "MB",
        8 => "MG",
        9 => "MR",
        10 => "NULL",
        11 => "WKS",
        12 => "PTR",
        13 => "HINFO",
        14 => "MINFO",
        15 => "MX",
        16 => "TXT",
        17 => "RP",
        18 => "AFSDB",
        20 => "ISDN",
        21 => "RT",
        22 => "NSAP",
        23 => "NSAP-PTR",
        28 => "AAAA",
        29 => "LOC",
        33 => "SRV",
        35 => "NAPTR",
        36 => "KX",
        37 => "CERT",
        41 => "OPT",
        43 => "DS",
        45 => "IPSECKEY",
        46 => "RRSIG",
        47 => "NSEC",
        48 => "DNSKEY",
        49 => "DHCID",
        63 => "ZONEMD",
        64 => "SVCB",
        65 => "HTTPS",
        108 => "EUI48",
        109 => "EUI64",
        257 => "CAA",
        _ => "UNKNOWN",
    }
}

pub fn schema(code: u16) -> Option<&'static [K]> {
    Some(match code {
        1 => &[U32],
        2 | 3 | 4 | 5 | 7 | 8 | 9 | 12 => &[Name(Rfc1035)],
        6 => &[Name(Rfc1035), Name(Rfc1035), U32, U32, U32, U32, U32],
        11 => &[U32, U8, Rest],
        13 => &[Str, Str],
        14 => &[Name(Rfc1035), Name(Rfc1035)],
        15 => &[U16, Name(Rfc1035)],
        16 => &[Strs],
        17 => &[Name(Open), Name(Open)],
        18 => &[U16, Name(Open)],
        20 => &[Str, Str],
        21 => &[U16, Name(Open)],
        22 => &[U8, U16, U8, U24, U16, U16, U16, U48, U8],
        23 => &[Name(Open)],
        28 => &[Fixed(16)],
        29 => &[U8, U8, U8, U8, U32, U32, U32],
        33 => &[U16, U16, U16, Name(Never)],
        35 => &[U16, U16, Str, Str, Str, Name(Never)],
        36 => &[U16, Name(Never)],
        37 => &[U16, U16, U8, Rest],
        41 => &[Opts],
        43 => &[U16, U8, U8, Rest],
        45 => &[U8, U8, U8, Gw, Rest],
        46 => &[U16, U8, U8, U32, U32, U32, U16, Name(Never), Rest],
        47 => &[Name(Never), Windows],
        48 => &[U16, U8, U8, Rest],
        49 => &[U16, U8, Rest],
        63 => &[U32, U8, U8, Rest],
        64 | 65 => &[U16, Name(Never), Params],
        108 => &[Fixed(6)],
        109 => &[Fixed(8)],
        257 => &[U8, Str, Rest],
        _ => return None,
    })
}

pub fn name_wire_len(n: &NameM) -> usize {
    n.iter().map(|l| l.len() + 1).sum::<usize>() + 1
}

pub fn name_text(n: &NameM) -> String {
    if n.is_empty() {
        return ".".into();
    }
    let mut s = String::new();
    for (i, l) in n.iter().enumerate() {
        if i > 0 {
            s.push('.');
        }
        for &b in l {
            if b.is_ascii_graphic() && b != b'.' && b != b'\\' {
                s.push(b as char)
            } else {
                s.push_str(&format!("\\{:03}", b))
            }
        }
    }
    s
}

// ---------------------------------------------------------------------------------------------
// reference name decoder (DESIGN.md appendix B)

#[derive(Clone, Copy, Debug, PartialEq, Eq, Hash)]
pub enum NameErr {
    Truncated,
    PtrOutOfRange,
    Cycle,
    ReservedLabelType,
    NameTooLong,
}

#[derive(Clone, Debug, PartialEq, Eq)]
pub struct NameOk {
    pub labels: NameM,
    /// offset just past the in-place encoding (past the 00, or past the first pointer)
    pub next: usize,
    pub hops: u32,
    /// some pointer did not point strictly backwards
    pub forward: bool,
    /// offsets of the pointers followed (first byte of each)
    pub ptrs: Vec<(usize, usize)>,
}

pub fn decode_name(buf: &[u8], off: usize) -> Result<NameOk, NameErr> {
    let mut pos = off;
    let mut next: Option<usize> = None;
    let mut wire = 0usize;
    let mut labels: NameM = Vec::new();
    let mut visited: Vec<usize> = Vec::new();
    let mut hops = 0u32;
    let mut forward = false;
    let mut ptrs = Vec::new();
    loop {
        if pos >= buf.len() {
            return Err(NameErr::Truncated);
        }
        let b = buf[pos];
        if b == 0 {
            wire += 1;
            if wire > 255 {
                return Err(NameErr::NameTooLong);
            }
            return Ok(NameOk {
                labels,
                next: next.unwrap_or(pos + 1),
                hops,
                forward,
                ptrs,
            });
        } else if b & 0xC0 == 0xC0 {
            if pos + 1 >= buf.len() {
                return Err(NameErr::Truncated);
            }
            let t = (((b & 0x3F) as usize) << 8) | buf[pos + 1] as usize;
            if next.is_none() {
                next = Some(pos + 2);
            }
            hops += 1;
            if t >= buf.len() {
                return Err(NameErr::PtrOutOfRange);
            }
            if visited.contains(&t) {
                return Err(NameErr::Cycle);
            }
            if t >= pos {
                forward = true;
            }
            ptrs.push((pos, t));
            visited.push(t);
            pos = t;
        } else if b & 0xC0 != 0 {
            return Err(NameErr::ReservedLabelType);
        } else {
            let l = b as usize;
            if pos + 1 + l > buf.len() {
                return Err(NameErr::Truncated);
            }
            wire += 1 + l;
            if wire + 1 > 255 {
                return Err(NameErr::NameTooLong);
            }
            labels.push(buf[pos + 1..pos + 1 + l].to_vec());
            pos += 1 + l;
        }
    }
}

// ---------------------------------------------------------------------------------------------
// envelope walker

#[derive(Clone, Debug)]
pub struct QW {
    pub name: NameOk,
    pub qtype: u16,
    pub qclass: u16,
    pub start: usize,
    pub end: usize,
}

#[derive(Clone, Debug)]
pub struct RRW {
    pub name: NameOk,
    pub rtype: u16,
    pub class: u16,
    pub ttl: u32,
    pub rdlen: usize,
    pub start: usize,
    pub rd_off: usize,
    pub end: usize,
}

#[derive(Clone, Debug)]
pub struct Env {
    pub id: u16,
    pub flags: u16,
    pub counts: [u16; 4],
    pub qs: Vec<QW>,
    pub secs: [Vec<RRW>; 3],
    pub end: usize,
}

#[derive(Clone, Debug, PartialEq, Eq)]
pub enum EnvErr {
    ShortHeader,
    /// a name could not be decoded (section 0 = question .. 3 = additional, entry index)
    Name(NameErr, usize, usize),
    /// a fixed part or RDLENGTH runs past the end
    Truncated(usize, usize),
}

fn be16(b: &[u8], o: usize) -> u16 {
    u16::from_be_bytes([b[o], b[o + 1]])
}
fn be32(b: &[u8], o: usize) -> u32 {
    u32::from_be_bytes([b[o], b[o + 1], b[o + 2], b[o + 3]])
}

pub fn decode_envelope(buf: &[u8]) -> Result<Env, EnvErr> {
    if buf.len() < 12 {
        return Err(EnvErr::ShortHeader);
    }
    let counts = [be16(buf, 4), be16(buf, 6), be16(buf, 8), be16(buf, 10)];
    let mut pos = 12usize;
    let mut qs = Vec::new();
    for i in 0..counts[0] as usize {
        let start = pos;
        let name = decode_name(buf, pos).map_err(|e| EnvErr::Name(e, 0, i))?;
        pos = name.next;
        if pos + 4 > buf.len() {
            return Err(EnvErr::Truncated(0, i));
        }
        qs.push(QW {
            name,
            qtype: be16(buf, pos),
            qclass: be16(buf, pos + 2),
            start,
            end: pos + 4,
        });
        pos += 4;
    }
    let mut secs: [Vec<RRW>; 3] = [vec![], vec![], vec![]];
    for s in 0..3 {
        for i in 0..counts[s + 1] as usize {
            let start = pos;
            let name = decode_name(buf, pos).map_err(|e| EnvErr::Name(e, s + 1, i))?;
            pos = name.next;
            if pos + 10 > buf.len() {
                return Err(EnvErr::Truncated(s + 1, i));
            }
            let rdlen = be16(buf, pos + 8) as usize;
            if pos + 10 + rdlen > buf.len() {
                return Err(EnvErr::Truncated(s + 1, i));
            }
            secs[s].push(RRW {
                name,
                rtype: be16(buf, pos),
                class: be16(buf, pos + 2),
                ttl: be32(buf, pos + 4),
                rdlen,
                start,
                rd_off: pos + 10,
                end: pos + 10 + rdlen,
            });
            pos += 10 + rdlen;
        }
    }
    Ok(Env {
        id: be16(buf, 0),
        flags: be16(buf, 2),
        counts,
        qs,
        secs,
        end: pos,
    })
}

// ---------------------------------------------------------------------------------------------
// typed RDATA decoder

#[derive(Clone, Debug, PartialEq, Eq)]
pub enum RdErr {
    NoSchema,
    Short(usize),
    Name(NameErr),
    /// a name's in-place bytes cross the end of the RDATA
    NameCrossesEnd,
    Trailing(usize),
    Rule(&'static str),
}

#[derive(Clone, Debug)]
pub struct NamePos {
    pub off: usize,
    pub comp: Comp,
    pub name: NameOk,
}

/// Decode RDATA of `rtype` occupying buf[rd_off .. rd_off+rd_len] exactly. Names may point anywhere
/// in `buf` (the whole message).
pub fn decode_rdata(
    buf: &[u8],
    rd_off: usize,
    rd_len: usize,
    rtype: u16,
) -> Result<(Vec<F>, Vec<NamePos>), RdErr> {
    let sch = schema(rtype).ok_or(RdErr::NoSchema)?;
    let end = rd_off + rd_len;
    debug_assert!(end <= buf.len());
    let mut pos = rd_off;
    let mut out = Vec::new();
    let mut names = Vec::new();
    for (fi, k) in sch.iter().enumerate() {
        match *k {
            U8 | U16 | U24 | U32 | U48 => {
                let w = k.int_width().unwrap();
                if pos + w > end {
                    return Err(RdErr::Short(fi));
                }
                let mut v = 0u64;
                for i in 0..w {
                    v = (v << 8) | buf[pos + i] as u64;
                }
                out.push(F::Int(v));
                pos += w;
            }
            Fixed(n) => {
                if pos + n > end {
                    return Err(RdErr::Short(fi));
                }
                out.push(F::Bytes(buf[pos..pos + n].to_vec()));
                pos += n;
            }
            Str => {
                if pos + 1 > end {
                    return Err(RdErr::Short(fi));
                }
                let l = buf[pos] as usize;
                if pos + 1 + l > end {
                    return Err(RdErr::Short(fi));
                }
                out.push(F::Bytes(buf[pos + 1..pos + 1 + l].to_vec()));
                pos += 1 + l;
            }
            Name(comp) => {
                if pos >= end {
                    return Err(RdErr::Short(fi));
                }
                // the decoder may follow pointers anywhere in the message, but in-place bytes
                // must stay inside the RDATA: decode against the message cut at `end`.
                let n = decode_name(&buf[..end], pos).map_err(|e| match e {
                    NameErr::Truncated => RdErr::NameCrossesEnd,
                    e => RdErr::Name(e),
                })?;
                let nx = n.next;
                names.push(NamePos {
                    off: pos,
                    comp,
                    name: n.clone(),
                });
                out.push(F::Name(n.labels));
                pos = nx;
            }
            Rest => {
                out.push(F::Bytes(buf[pos..end].to_vec()));
                pos = end;
            }
            Strs => {
                let mut v = Vec::new();
                if pos >= end {
                    return Err(RdErr::Short(fi));
                }
                while pos < end {
                    let l = buf[pos] as usize;
                    if pos + 1 + l > end {
                        return Err(RdErr::Short(fi));
                    }
                    v.push(buf[pos + 1..pos + 1 + l].to_vec());
                    pos += 1 + l;
                }
                out.push(F::List(v));
            }
            Opts | Params => {
                let mut v: Vec<(u16, Vec<u8>)> = Vec::new();
                while pos < end {
                    if pos + 4 > end {
                        return Err(RdErr::Short(fi));
                    }
                    let code = be16(buf, pos);
                    let l = be16(buf, pos + 2) as usize;
                    if pos + 4 + l > end {
                        return Err(RdErr::Short(fi));
                    }
                    if *k == Params {
                        if let Some((prev, _)) = v.last() {
                            if code <= *prev {
                                return Err(RdErr::Rule("svcb keys not strictly increasing"));
                            }
                        }
                    }
                    v.push((code, buf[pos + 4..pos + 4 + l].to_vec()));
                    pos += 4 + l;
                }
                out.push(F::Pairs(v));
            }
            Windows => {
                let mut v: Vec<(u16, Vec<u8>)> = Vec::new();
                while pos < end {
                    if pos + 2 > end {
                        return Err(RdErr::Short(fi));
                    }
                    let w = buf[pos] as u16;
                    let l = buf[pos + 1] as usize;
                    if pos + 2 + l > end {
                        return Err(RdErr::Short(fi));
                    }
                    if let Some((prev, _)) = v.last() {
                        if w <= *prev {
                            return Err(RdErr::Rule("nsec windows not strictly increasing"));
                        }
                    }
                    v.push((w, buf[pos + 2..pos + 2 + l].to_vec()));
                    pos += 2 + l;
                }
                out.push(F::Pairs(v));
            }
            Gw => {
                let gt = match out.get(1) {
                    Some(F::Int(v)) => *v,
                    _ => return Err(RdErr::Rule("gateway type missing")),
                };
                match gt {
                    0 => out.push(F::Gw(GwM::None)),
                    1 => {
                        if pos + 4 > end {
                            return Err(RdErr::Short(fi));
                        }
                        let mut a = [0u8; 4];
                        a.copy_from_slice(&buf[pos..pos + 4]);
                        out.push(F::Gw(GwM::V4(a)));
                        pos += 4;
                    }
                    2 => {
                        if pos + 16 > end {
                            return Err(RdErr::Short(fi));
                        }
                        let mut a = [0u8; 16];
                        a.copy_from_slice(&buf[pos..pos + 16]);
                        out.push(F::Gw(GwM::V6(a)));
                        pos += 16;
                    }
                    3 => {
                        if pos >= end {
                            return Err(RdErr::Short(fi));
                        }
                        let n = decode_name(&buf[..end], pos).map_err(|e| match e {
                            NameErr::Truncated => RdErr::NameCrossesEnd,
                            e => RdErr::Name(e),
                        })?;
                        let nx = n.next;
                        names.push(NamePos {
                            off: pos,
                            comp: Never,
                            name: n.clone(),
                        });
                        out.push(F::Gw(GwM::Name(n.labels)));
                        pos = nx;
                    }
                    _ => return Err(RdErr::Rule("unknown gateway type")),
                }
            }
        }
    }
    if pos != end {
        return Err(RdErr::Trailing(end - pos));
    }
    if rtype == 29 {
        if let Some(F::Int(v)) = out.first() {
            if *v != 0 {
                return Err(RdErr::Rule("LOC version not 0"));
            }
        }
    }
    Ok((out, names))
}

// ---------------------------------------------------------------------------------------------
// reference encoder

#[derive(Clone, Copy, Debug, PartialEq, Eq, Hash)]
pub enum FK {
    LabelLen,
    Pointer,
    StrLen,
    RdLength,
    OptLen,
    ParamLen,
    BitmapLen,
    Window,
    GwType,
    Count,
}

#[derive(Clone, Copy, Debug)]
pub struct FieldRef {
    pub off: usize,
    pub width: usize,
    pub kind: FK,
}

#[derive(Clone, Copy, Debug, PartialEq, Eq, Hash)]
pub enum NameKind {
    Question,
    Owner,
    Rd(Comp),
}

pub enum Plan {
    None,
    Canonical,
    Arbitrary(Rng),
}

pub struct Encoded {
    pub bytes: Vec<u8>,
    pub fields: Vec<FieldRef>,
    /// number of compression pointers emitted
    pub pointers: usize,
    /// pointers emitted inside RDATA of types whose names must not / need not be compressed
    pub foreign_pointers: usize,
    /// (start, end) of every RR, in order of writing
    pub rr_spans: Vec<(usize, usize)>,
}

struct Enc {
    b: Vec<u8>,
    fields: Vec<FieldRef>,
    table: Vec<(usize, NameM)>,
    plan: Plan,
    pointers: usize,
    foreign_pointers: usize,
}

impl Enc {
    fn u16(&mut self, v: u16) {
        self.b.extend_from_slice(&v.to_be_bytes())
    }
    fn u32(&mut self, v: u32) {
        self.b.extend_from_slice(&v.to_be_bytes())
    }

    fn name(&mut self, n: &NameM, kind: NameKind) {
        let allow = match (&self.plan, kind) {
            (Plan::None, _) => false,
            (Plan::Canonical, NameKind::Question | NameKind::Owner | NameKind::Rd(Rfc1035)) => true,
            (Plan::Canonical, _) => false,
            (Plan::Arbitrary(_), _) => true,
        };
        for i in 0..=n.len() {
            let suffix: NameM = n[i..].to_vec();
            let here = self.b.len();
            if allow && (i < n.len() || matches!(self.plan, Plan::Arbitrary(_))) {
                let cands: Vec<usize> = self
                    .table
                    .iter()
                    .filter(|(o, s)| *s == suffix && *o < here)
                    .map(|(o, _)| *o)
                    .collect();
                if !cands.is_empty() {
                    let take = match &mut self.plan {
                        Plan::Canonical => Some(cands[0]),
                        Plan::Arbitrary(r) => {
                            // root: rarely via pointer; others: half of the time
                            let p = if i == n.len() { r.chance(1, 8) } else { r.chance(1, 2) };
                            if p {
                                Some(*r.pick(&cands))
                            } else {
                                Option::None
                            }
                        }
                        Plan::None => Option::None,
                    };
                    if let Some(t) = take {
                        self.fields.push(FieldRef {
                            off: here,
                            width: 2,
                            kind: FK::Pointer,
                        });
                        self.u16(0xC000 | t as u16);
                        self.pointers += 1;
                        if !matches!(
                            kind,
                            NameKind::Question | NameKind::Owner | NameKind::Rd(Rfc1035)
                        ) {
                            self.foreign_pointers += 1;
                        }
                        if matches!(self.plan, Plan::Arbitrary(_)) && here < 0x4000 {
                            // a pointer is itself a valid target (chain)
                            self.table.push((here, suffix));
                        }
                        return;
                    }
                }
            }
            if here < 0x4000 && !matches!(self.plan, Plan::None) {
                if i < n.len() || matches!(self.plan, Plan::Arbitrary(_)) {
                    self.table.push((here, suffix));
                }
            }
            if i == n.len() {
                self.b.push(0);
            } else {
                self.fields.push(FieldRef {
                    off: here,
                    width: 1,
                    kind: FK::LabelLen,
                });
                self.b.push(n[i].len() as u8);
                self.b.extend_from_slice(&n[i]);
            }
        }
    }

    fn rdata(&mut self, rtype: u16, rd: &Rd) {
        match rd {
            Rd::Opaque(v) => self.b.extend_from_slice(v),
            Rd::Fields(fs) => {
                let sch = schema(rtype).expect("typed rdata needs a schema");
                assert_eq!(sch.len(), fs.len(), "field count for type {}", rtype);
                for (k, f) in sch.iter().zip(fs.iter()) {
                    match (*k, f) {
                        (U8 | U16 | U24 | U32 | U48, F::Int(v)) => {
                            let w = k.int_width().unwrap();
                            if *k == U8 && rtype == 45 && self.is_gwtype_slot(fs, f) {
                                self.fields.push(FieldRef {
                                    off: self.b.len(),
                                    width: 1,
                                    kind: FK::GwType,
                                });
                            }
                            let be = v.to_be_bytes();
                            self.b.extend_from_slice(&be[8 - w..]);
                        }
                        (Fixed(n), F::Bytes(v)) => {
                            assert_eq!(v.len(), n);
                            self.b.extend_from_slice(v)
                        }
                        (Str, F::Bytes(v)) => {
                            assert!(v.len() <= 255);
                            self.fields.push(FieldRef {
                                off: self.b.len(),
                                width: 1,
                                kind: FK::StrLen,
                            });
                            self.b.push(v.len() as u8);
                            self.b.extend_from_slice(v);
                        }
                        (Name(c), F::Name(n)) => self.name(n, NameKind::Rd(c)),
                        (Rest, F::Bytes(v)) => self.b.extend_from_slice(v),
                        (Strs, F::List(vs)) => {
                            for v in vs {
                                assert!(v.len() <= 255);
                                self.fields.push(FieldRef {
                                    off: self.b.len(),
                                    width: 1,
                                    kind: FK::StrLen,
                                });
                                self.b.push(v.len() as u8);
                                self.b.extend_from_slice(v);
                            }
                        }
                        (Opts | Params, F::Pairs(ps)) => {
                            for (c, v) in ps {
                                self.u16(*c);
                                self.fields.push(FieldRef {
                                    off: self.b.len(),
                                    width: 2,
                                    kind: if *k == Opts { FK::OptLen } else { FK::ParamLen },
                                });
                                self.u16(v.len() as u16);
                                self.b.extend_from_slice(v);
                            }
                        }
                        (Windows, F::Pairs(ps)) => {
                            for (w, v) in ps {
                                self.fields.push(FieldRef {
                                    off: self.b.len(),
                                    width: 1,
                                    kind: FK::Window,
                                });
                                self.b.push(*w as u8);
                                self.fields.push(FieldRef {
                                    off: self.b.len(),
                                    width: 1,
                                    kind: FK::BitmapLen,
                                });
                                self.b.push(v.len() as u8);
                                self.b.extend_from_slice(v);
                            }
                        }
                        (Gw, F::Gw(g)) => match g {
                            GwM::None => {}
                            GwM::V4(a) => self.b.extend_from_slice(a),
                            GwM::V6(a) => self.b.extend_from_slice(a),
                            GwM::Name(n) => self.name(n, NameKind::Rd(Never)),
                        },
                        (k, f) => panic!("schema/field mismatch: {:?} vs {:?} (type {})", k, f, rtype),
                    }
                }
            }
        }
    }

    fn is_gwtype_slot(&self, fs: &[F], f: &F) -> bool {
        // second field of IPSECKEY
        fs.len() > 1 && std::ptr::eq(&fs[1], f)
    }

    fn rr(&mut self, rr: &RRM) -> (usize, usize) {
        let start = self.b.len();
        self.name(&rr.name, NameKind::Owner);
        self.u16(rr.rtype);
        self.u16(rr.class);
        self.u32(rr.ttl);
        let lenpos = self.b.len();
        self.fields.push(FieldRef {
            off: lenpos,
            width: 2,
            kind: FK::RdLength,
        });
        self.u16(0);
        self.rdata(rr.rtype, &rr.rd);
        self.b.extend_from_slice(&rr.extra);
        let l = (self.b.len() - lenpos - 2) as i64 + rr.rdlen_delta as i64;
        let l = l.clamp(0, 65535) as u16;
        self.b[lenpos..lenpos + 2].copy_from_slice(&l.to_be_bytes());
        (start, self.b.len())
    }
}

pub fn encode(m: &MsgM, plan: Plan) -> Encoded {
    let mut e = Enc {
        b: Vec::with_capacity(512),
        fields: Vec::new(),
        table: Vec::new(),
        plan,
        pointers: 0,
        foreign_pointers: 0,
    };
    e.u16(m.id);
    e.u16(m.flags);
    let counts = m.counts.unwrap_or([
        m.qs.len() as u16,
        m.secs[0].len() as u16,
        m.secs[1].len() as u16,
        m.secs[2].len() as u16,
    ]);
    for (i, c) in counts.iter().enumerate() {
        e.fields.push(FieldRef {
            off: 4 + 2 * i,
            width: 2,
            kind: FK::Count,
        });
        e.u16(*c);
    }
    for q in &m.qs {
        e.name(&q.name, NameKind::Question);
        e.u16(q.qtype);
        e.u16(q.qclass);
    }
    let mut rr_spans = Vec::new();
    for s in 0..3 {
        for rr in &m.secs[s] {
            rr_spans.push(e.rr(rr));
        }
    }
    e.b.extend_from_slice(&m.trailing);
    Encoded {
        bytes: e.b,
        fields: e.fields,
        pointers: e.pointers,
        foreign_pointers: e.foreign_pointers,
        rr_spans,
    }
}

/// Encode the RDATA of one record alone, uncompressed (used to compute natural sizes).
pub fn encode_rdata_plain(rtype: u16, rd: &Rd) -> Vec<u8> {
    let mut e = Enc {
        b: Vec::new(),
        fields: Vec::new(),
        table: Vec::new(),
        plan: Plan::None,
        pointers: 0,
        foreign_pointers: 0,
    };
    e.rdata(rtype, rd);
    e.b
}

/// Full typed decode of a message into the wire model. Every RDATA with a schema must decode
/// exactly (RDLENGTH 0 and unknown types are opaque). Returns the model plus name positions.
#[derive(Debug)]
pub enum TypedErr {
    Env(EnvErr),
    Rd {
        section: usize,
        index: usize,
        rtype: u16,
        err: RdErr,
    },
}

pub struct Typed {
    pub env: Env,
    pub msg: MsgM,
    /// per section, per record: names found inside its RDATA
    pub rd_names: [Vec<Vec<NamePos>>; 3],
}

pub fn decode_typed(buf: &[u8]) -> Result<Typed, TypedErr> {
    let env = decode_envelope(buf).map_err(TypedErr::Env)?;
    let mut msg = MsgM {
        id: env.id,
        flags: env.flags,
        ..Default::default()
    };
    for q in &env.qs {
        msg.qs.push(QM {
            name: q.name.labels.clone(),
            qtype: q.qtype,
            qclass: q.qclass,
        });
    }
    let mut rd_names: [Vec<Vec<NamePos>>; 3] = [vec![], vec![], vec![]];
    for s in 0..3 {
        for (i, r) in env.secs[s].iter().enumerate() {
            let (rd, names) = if r.rdlen == 0 || schema(r.rtype).is_none() {
                (Rd::Opaque(buf[r.rd_off..r.end].to_vec()), vec![])
            } else {
                let (f, n) = decode_rdata(buf, r.rd_off, r.rdlen, r.rtype).map_err(|err| {
                    TypedErr::Rd {
                        section: s,
                        index: i,
                        rtype: r.rtype,
                        err,
                    }
                })?;
                (Rd::Fields(f), n)
            };
            msg.secs[s].push(RRM::new(r.name.labels.clone(), r.rtype, r.class, r.ttl, rd));
            rd_names[s].push(names);
        }
    }
    msg.trailing = buf[env.end..].to_vec();
    Ok(Typed { env, msg, rd_names })
}

pub fn hex(b: &[u8]) -> String {
    let mut s = String::with_capacity(b.len() * 2);
    for x in b {
        s.push_str(&format!("{:02x}", x));
    }
    s
}

pub fn unhex(s: &str) -> Option<Vec<u8>> {
    let s: Vec<u8> = s.bytes().filter(|c| !c.is_ascii_whitespace()).collect();
    if s.len() % 2 != 0 {
        return None;
    }
    let mut v = Vec::with_capacity(s.len() / 2);
    for c in s.chunks(2) {
        let h = (c[0] as char).to_digit(16)?;
        let l = (c[1] as char).to_digit(16)?;
        v.push((h * 16 + l) as u8);
    }
    Some(v)
}
