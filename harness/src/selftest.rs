//! Cross-validation of the reference codec against ground truth that did not come from the library.
pub fn main() -> i32 {
    println!("selftest: not implemented yet");
    0
}
