//! Cross-validation of the reference codec against ground truth that did not come from the library:
//! dnspython-produced vectors, the RFC 1035 4.1.4 example, RFC 9460 appendix D vectors, a hand-assembled
//! RFC 6891 message, and the codec's own encode∘decode identity.

use crate::gen::{Cfg, Gen};
use crate::refdns::*;
use crate::rng::Rng;

fn fail(msg: String) -> i32 {
    println!("selftest FAILED: {}", msg);
    2
}

pub fn main() -> i32 {
    let mut checks = 0u64;

    // ---- 1. dnspython vectors -----------------------------------------------------------------
    let dir = &format!("{}/simple-dns/samples/zonefile", std::env::var("VERIF_REPO").unwrap_or_else(|_| "/repo".into()));
    let mut files = 0;
    if let Ok(rd) = std::fs::read_dir(dir) {
        let mut paths: Vec<_> = rd.flatten().map(|e| e.path()).collect();
        paths.sort();
        for p in paths {
            let Ok(data) = std::fs::read(&p) else { continue };
            files += 1;
            let mut pos = 0usize;
            while pos < data.len() {
                let n = match decode_name(&data, pos) {
                    Ok(n) => n,
                    Err(e) => return fail(format!("{}: owner name at {}: {:?}", p.display(), pos, e)),
                };
                let h = n.next;
                if h + 10 > data.len() {
                    return fail(format!("{}: truncated RR header", p.display()));
                }
                let rtype = u16::from_be_bytes([data[h], data[h + 1]]);
                let rdlen = u16::from_be_bytes([data[h + 8], data[h + 9]]) as usize;
                if h + 10 + rdlen > data.len() {
                    return fail(format!("{}: RDLENGTH past the end", p.display()));
                }
                if schema(rtype).is_none() {
                    return fail(format!("{}: no schema for type {}", p.display(), rtype));
                }
                match decode_rdata(&data, h + 10, rdlen, rtype) {
                    Ok((fields, _)) => {
                        let re = encode_rdata_plain(rtype, &Rd::Fields(fields));
                        if re != data[h + 10..h + 10 + rdlen] {
                            return fail(format!("{}: re-encoding of type {} differs from the dnspython bytes", p.display(), rtype));
                        }
                        checks += 1;
                    }
                    Err(e) => return fail(format!("{}: type {} RDATA does not decode under the schema: {:?}", p.display(), rtype, e)),
                }
                pos = h + 10 + rdlen;
            }
        }
    }
    if files < 20 {
        println!("selftest note: only {} dnspython vector files found under {}", files, dir);
    }

    // ---- 2. RFC 1035 section 4.1.4 example -------------------------------------------------------
    {
        let mut b = vec![0u8; 93];
        let f_isi_arpa: &[u8] = &[1, b'F', 3, b'I', b'S', b'I', 4, b'A', b'R', b'P', b'A', 0];
        b[20..32].copy_from_slice(f_isi_arpa);
        b[40..44].copy_from_slice(&[3, b'F', b'O', b'O']);
        b[44..46].copy_from_slice(&[0xC0, 20]);
        b[64..66].copy_from_slice(&[0xC0, 26]);
        b[92] = 0;
        let lbl = |s: &str| s.as_bytes().to_vec();
        let cases: Vec<(usize, NameM, usize)> = vec![
            (20, vec![lbl("F"), lbl("ISI"), lbl("ARPA")], 32),
            (40, vec![lbl("FOO"), lbl("F"), lbl("ISI"), lbl("ARPA")], 46),
            (64, vec![lbl("ARPA")], 66),
            (92, vec![], 93),
        ];
        for (off, want, next) in cases {
            match decode_name(&b, off) {
                Ok(n) if n.labels == want && n.next == next => checks += 1,
                other => return fail(format!("RFC 1035 4.1.4 example at offset {}: {:?}", off, other)),
            }
        }
    }

    // ---- 3. RFC 9460 appendix D vectors ----------------------------------------------------------------
    {
        let foo_example_com: &[u8] = b"\x03foo\x07example\x03com\x00";
        let lbl = |s: &str| s.as_bytes().to_vec();
        let fec: NameM = vec![lbl("foo"), lbl("example"), lbl("com")];
        let mut v: Vec<(Vec<u8>, Vec<F>)> = Vec::new();
        v.push(([&b"\x00\x00"[..], foo_example_com].concat(), vec![F::Int(0), F::Name(fec.clone()), F::Pairs(vec![])]));
        v.push((b"\x00\x01\x00".to_vec(), vec![F::Int(1), F::Name(vec![]), F::Pairs(vec![])]));
        v.push(([&b"\x00\x10"[..], foo_example_com, b"\x00\x03\x00\x02\x00\x35"].concat(), vec![F::Int(16), F::Name(fec.clone()), F::Pairs(vec![(3, vec![0, 0x35])])]));
        v.push(([&b"\x00\x01"[..], foo_example_com, b"\x02\x9b\x00\x05hello"].concat(), vec![F::Int(1), F::Name(fec.clone()), F::Pairs(vec![(667, b"hello".to_vec())])]));
        v.push((
            [&b"\x00\x10\x03foo\x07example\x03org\x00"[..], b"\x00\x00\x00\x04\x00\x01\x00\x04", b"\x00\x01\x00\x09\x02h2\x05h3-19", b"\x00\x04\x00\x04\xc0\x00\x02\x01"].concat(),
            vec![F::Int(16), F::Name(vec![lbl("foo"), lbl("example"), lbl("org")]), F::Pairs(vec![(0, vec![0, 1, 0, 4]), (1, b"\x02h2\x05h3-19".to_vec()), (4, vec![192, 0, 2, 1])])],
        ));
        for (bytes, want) in v {
            for t in [64u16, 65] {
                match decode_rdata(&bytes, 0, bytes.len(), t) {
                    Ok((f, _)) if f == want => {
                        if encode_rdata_plain(t, &Rd::Fields(f)) != bytes {
                            return fail("RFC 9460 vector does not re-encode identically".into());
                        }
                        checks += 1;
                    }
                    other => return fail(format!("RFC 9460 appendix D vector: {:?}", other.map(|x| x.0))),
                }
            }
        }
        // failure cases of appendix D.3: key order / duplicate keys
        let bad = [&b"\x00\x01"[..], foo_example_com, b"\x00\x03\x00\x02\x00\x35\x00\x01\x00\x03\x02h2"].concat();
        if decode_rdata(&bad, 0, bad.len(), 64).is_ok() {
            return fail("SVCB with decreasing keys accepted by the reference decoder".into());
        }
        checks += 1;
    }

    // ---- 3b. hand-assembled RDATA for types that have no dnspython vector (layouts transcribed from the RFC texts) ----
    {
        let lbl = |s: &str| s.as_bytes().to_vec();
        let n = |parts: &[&str]| -> NameM { parts.iter().map(|p| lbl(p)).collect() };
        let name_bytes = |parts: &[&str]| -> Vec<u8> { let mut v = Vec::new(); for p in parts { v.push(p.len() as u8); v.extend_from_slice(p.as_bytes()); } v.push(0); v };
        let mut v: Vec<(u16, Vec<u8>, Vec<F>)> = Vec::new();
        // RFC 3403 section 6.1 style: NAPTR 100 10 "S" "SIP+D2U" "" _sip._udp.example.com.
        v.push((35, [&[0u8, 100, 0, 10, 1, b'S', 7][..], b"SIP+D2U", &[0], &name_bytes(&["_sip", "_udp", "example", "com"])].concat(),
            vec![F::Int(100), F::Int(10), F::Bytes(b"S".to_vec()), F::Bytes(b"SIP+D2U".to_vec()), F::Bytes(vec![]), F::Name(n(&["_sip", "_udp", "example", "com"]))]));
        // RFC 8659 section 4.1.1: CAA 0 issue "ca1.example.net"
        v.push((257, [&[0u8, 5][..], b"issue", b"ca1.example.net"].concat(), vec![F::Int(0), F::Bytes(b"issue".to_vec()), F::Bytes(b"ca1.example.net".to_vec())]));
        // RFC 8659: critical flag, tag "tbs", value "Unknown"
        v.push((257, [&[128u8, 3][..], b"tbs", b"Unknown"].concat(), vec![F::Int(128), F::Bytes(b"tbs".to_vec()), F::Bytes(b"Unknown".to_vec())]));
        // RFC 1035 3.3.7: MINFO RMAILBX EMAILBX
        v.push((14, [name_bytes(&["admin", "example"]), name_bytes(&["errors", "example"])].concat(), vec![F::Name(n(&["admin", "example"])), F::Name(n(&["errors", "example"]))]));
        // RFC 1035 3.3.1: CNAME; 3.3.3 MB; 3.3.6 MG; 3.3.8 MR; 3.3.12 PTR; MD/MF: a single domain name
        for t in [5u16, 7, 8, 9, 12, 3, 4] {
            v.push((t, name_bytes(&["target", "example", "org"]), vec![F::Name(n(&["target", "example", "org"]))]));
        }
        // RFC 2782: SRV 0 5 5060 sipserver.example.com.
        v.push((33, [&[0u8, 0, 0, 5, 0x13, 0xC4][..], &name_bytes(&["sipserver", "example", "com"])].concat(), vec![F::Int(0), F::Int(5), F::Int(5060), F::Name(n(&["sipserver", "example", "com"]))]));
        // RFC 1035 3.3.13: SOA MNAME RNAME SERIAL REFRESH RETRY EXPIRE MINIMUM
        v.push((6, [name_bytes(&["ns", "example"]), name_bytes(&["root", "example"]), vec![0x77, 0x35, 0x94, 0x01, 0, 0, 0x1C, 0x20, 0, 0, 0x0E, 0x10, 0, 0x12, 0x75, 0, 0, 0, 0x0E, 0x10]].concat(),
            vec![F::Name(n(&["ns", "example"])), F::Name(n(&["root", "example"])), F::Int(0x77359401), F::Int(7200), F::Int(3600), F::Int(1209600), F::Int(3600)]));
        // RFC 6891 6.1.2: OPT RDATA = {OPTION-CODE, OPTION-LENGTH, OPTION-DATA}*
        v.push((41, vec![0, 10, 0, 2, 0xAB, 0xCD, 0, 8, 0, 0], vec![F::Pairs(vec![(10, vec![0xAB, 0xCD]), (8, vec![])])]));
        for (t, bytes, want) in v {
            match decode_rdata(&bytes, 0, bytes.len(), t) {
                Ok((f, _)) if f == want => {
                    if encode_rdata_plain(t, &Rd::Fields(f)) != bytes {
                        return fail(format!("hand-assembled type {} vector does not re-encode identically", t));
                    }
                    checks += 1;
                }
                other => return fail(format!("hand-assembled type {} vector decodes as {:?}", t, other.map(|x| x.0))),
            }
        }
    }

    // ---- 4. hand-assembled RFC 6891 message ---------------------------------------------------------------
    {
        let b: &[u8] = &[
            0x12, 0x34, 0x81, 0x80, 0, 0, 0, 0, 0, 0, 0, 1, 0x00, 0x00, 0x29, 0x10, 0x00, 0x01, 0x00, 0x80, 0x00, 0x00, 0x08, 0x00, 0x0a, 0x00, 0x04, 1, 2, 3, 4,
        ];
        match decode_typed(b) {
            Ok(t) => {
                let r = &t.msg.secs[2][0];
                let ok = r.name.is_empty() && r.rtype == 41 && r.class == 4096 && r.ttl == 0x0100_8000 && r.rd == Rd::Fields(vec![F::Pairs(vec![(10, vec![1, 2, 3, 4])])]);
                if !ok {
                    return fail(format!("hand-assembled OPT message decoded as {:?}", r));
                }
                checks += 1;
            }
            Err(e) => return fail(format!("hand-assembled OPT message: {:?}", e)),
        }
    }

    // ---- 5. encode∘decode identity, all compression plans ----------------------------------------------------------
    for idx in 0..3000u64 {
        let mut r = Rng::for_case(0x5E1F, "selftest", idx);
        let mut g = Gen::new(&mut r, Cfg { share: 70, max_entries: 4, max_rest: 30, ..Default::default() });
        let p = g.packet();
        let mut m = p.to_wire(g.r.usize(0, 4));
        // RDLENGTH 0 decodes as empty opaque RDATA (an OPT without options): normalise the expectation
        for s in m.secs.iter_mut() {
            for r in s.iter_mut() {
                if encode_rdata_plain(r.rtype, &r.rd).is_empty() {
                    r.rd = Rd::Opaque(vec![]);
                }
            }
        }
        let plan = match idx % 3 {
            0 => Plan::None,
            1 => Plan::Canonical,
            _ => Plan::Arbitrary(Rng::for_case(0x5E1F, "selftest-plan", idx)),
        };
        let e = encode(&m, plan);
        match decode_typed(&e.bytes) {
            Ok(t) => {
                if t.msg != m {
                    return fail(format!("encode∘decode identity broken for generated message {}", idx));
                }
                if t.env.end != e.bytes.len() {
                    return fail("walker did not consume the whole encoded message".into());
                }
                // every name decodes without forward pointers
                let fw = t.env.qs.iter().any(|q| q.name.forward) || t.env.secs.iter().flatten().any(|r| r.name.forward) || t.rd_names.iter().flatten().flatten().any(|n| n.name.forward);
                if fw {
                    return fail("reference encoder emitted a forward pointer".into());
                }
                checks += 1;
            }
            Err(e2) => return fail(format!("reference decoder rejects reference encoding {}: {:?}", idx, e2)),
        }
    }
    println!("selftest ok: {} cross-validation checks ({} dnspython vector files)", checks, files);
    0
}
