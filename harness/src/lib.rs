//! verif-harness library: monitors, reference codec, generators, bridge and the property checks.
//! (`main.rs` is the command-line driver; the fuzz targets under `fuzz/` link this library.)
#![allow(dead_code)]

pub mod bridge;
pub mod ctx;
pub mod gen;
pub mod model;
pub mod monitor;
pub mod props;
pub mod refdns;
pub mod rng;
pub mod selftest;
pub mod tools;
