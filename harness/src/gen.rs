//! Seeded model-first generators.

use crate::model::*;
use crate::refdns::*;
use crate::rng::Rng;

#[derive(Clone)]
pub struct Cfg {
    /// labels may contain arbitrary bytes (else DNS-ish ASCII)
    pub binary_labels: bool,
    /// percentage of names derived from an already generated name (suffix sharing)
    pub share: u64,
    /// upper bound for opaque / trailing data fields
    pub max_rest: usize,
    /// maximum entries per section
    pub max_entries: usize,
    /// percentage of packets carrying EDNS
    pub edns: u64,
    /// allow unknown type codes / NULL / empty rdata
    pub exotic: bool,
    /// restrict record types (empty = all 39 non-OPT typed codes)
    pub types: Vec<u16>,
    /// long names/labels more likely
    pub long_names: bool,
}

impl Default for Cfg {
    fn default() -> Self {
        Cfg {
            binary_labels: true,
            share: 40,
            max_rest: 40,
            max_entries: 4,
            edns: 30,
            exotic: true,
            types: vec![],
            long_names: false,
        }
    }
}

pub struct Gen<'r> {
    pub r: &'r mut Rng,
    pub cfg: Cfg,
    pub pool: Vec<NameM>,
}

const ASCII_LABELS: [&str; 14] = [
    "a", "b", "ab", "ba", "www", "mail", "example", "com", "org", "local", "_tcp", "_udp", "_http",
    "x1",
];

pub const HOSTILE_BYTES: [&[u8]; 16] = [
    b"\xff",
    b"\x80",
    b"\xc3",           // truncated 2-byte sequence
    b"\xc0\xaf",       // overlong
    b"\xed\xa0\x80",   // surrogate
    b"\xf4\x90\x80\x80", // > U+10FFFF
    b"\x00",
    b".",
    b"a.b",
    b"\\",
    b"\\.",
    b" ",
    b"\xe2\x82",       // truncated 3-byte
    b"\xc3\xa9",       // valid é
    b"=",
    b";",
];

impl<'r> Gen<'r> {
    pub fn new(r: &'r mut Rng, cfg: Cfg) -> Self {
        Gen {
            r,
            cfg,
            pool: Vec::new(),
        }
    }

    pub fn label(&mut self) -> Lbl {
        let r = &mut *self.r;
        if !self.cfg.binary_labels || r.chance(1, 2) {
            if r.chance(3, 4) {
                return r.pick(&ASCII_LABELS).as_bytes().to_vec();
            }
            let n = match r.below(10) {
                0 => 63,
                1 => 62,
                2 => 1,
                _ => r.usize(1, 12),
            };
            return (0..n).map(|_| b'a' + (r.below(26) as u8)).collect();
        }
        match r.below(6) {
            0 => r.pick(&HOSTILE_BYTES).to_vec(),
            1 => {
                let n = r.usize(1, 63);
                r.bytes(n)
            }
            2 => {
                let mut v = r.pick(&ASCII_LABELS).as_bytes().to_vec();
                { let h: &[u8] = *r.pick(&HOSTILE_BYTES); v.extend_from_slice(h); }
                v.truncate(63);
                v
            }
            3 => vec![r.u8()],
            4 => {
                let n = *r.pick(&[62usize, 63]);
                r.bytes(n)
            }
            _ => {
                // upper/lower case variants
                let mut v = r.pick(&ASCII_LABELS).as_bytes().to_vec();
                for b in v.iter_mut() {
                    if r.bool() {
                        *b = b.to_ascii_uppercase()
                    }
                }
                v
            }
        }
    }

    fn fit(n: &mut NameM) {
        while name_wire_len(n) > 255 {
            n.remove(0);
        }
    }

    pub fn fresh_name(&mut self) -> NameM {
        let nl = if self.cfg.long_names && self.r.chance(1, 3) {
            self.r.usize(3, 9)
        } else {
            match self.r.below(12) {
                0 => 0,
                1 => 1,
                _ => self.r.usize(1, 4),
            }
        };
        let mut n: NameM = (0..nl).map(|_| self.label()).collect();
        Self::fit(&mut n);
        n
    }

    /// name of exactly `wire` bytes on the wire (3 <= wire <= 255), arbitrary content
    pub fn name_of_wire_len(&mut self, wire: usize) -> NameM {
        let mut left = wire - 1; // bytes for (len+label) pairs
        let mut n = NameM::new();
        while left > 0 {
            let mut take = if left <= 64 { left } else { self.r.usize(2, 64) };
            if left - take == 1 {
                take -= 1;
            }
            if take < 2 {
                take = left.min(64);
            }
            let l = take - 1;
            let lab: Lbl = if self.cfg.binary_labels && self.r.bool() {
                self.r.bytes(l)
            } else {
                (0..l).map(|_| b'a' + self.r.below(26) as u8).collect()
            };
            n.push(lab);
            left -= take;
        }
        n
    }

    pub fn name(&mut self) -> NameM {
        let share = self.cfg.share;
        let n = if !self.pool.is_empty() && self.r.below(100) < share {
            let base = self.r.pick(&self.pool).clone();
            let drop = if base.is_empty() {
                0
            } else {
                self.r.usize(0, base.len())
            };
            let mut n: NameM = base[drop..].to_vec();
            match self.r.below(6) {
                0 | 1 => {
                    let l = self.label();
                    n.insert(0, l)
                }
                2 => {
                    let l = self.label();
                    n.insert(0, l);
                    let l = self.label();
                    n.insert(0, l)
                }
                3 => {
                    // differ only in a trailing label
                    let l = self.label();
                    n.push(l)
                }
                _ => {}
            }
            Self::fit(&mut n);
            n
        } else if self.r.chance(1, 40) {
            let w = *self.r.pick(&[253usize, 254, 255]);
            self.name_of_wire_len(w)
        } else {
            self.fresh_name()
        };
        if self.pool.len() < 24 {
            self.pool.push(n.clone());
        } else {
            let i = self.r.usize(0, self.pool.len() - 1);
            self.pool[i] = n.clone();
        }
        n
    }

    pub fn blob(&mut self, max: usize) -> Vec<u8> {
        let n = match self.r.below(8) {
            0 => 0,
            1 => 1,
            2 => max,
            _ => self.r.usize(0, max),
        };
        self.r.bytes(n)
    }

    pub fn string(&mut self) -> Vec<u8> {
        let r = &mut *self.r;
        let n = match r.below(12) {
            0 => 0,
            1 => 1,
            2 => 254,
            3 => 255,
            _ => r.usize(0, 24),
        };
        match r.below(4) {
            0 => r.bytes(n),
            1 => {
                let mut v: Vec<u8> = Vec::new();
                while v.len() < n {
                    { let h: &[u8] = *r.pick(&HOSTILE_BYTES); v.extend_from_slice(h); }
                }
                v.truncate(n);
                v
            }
            _ => (0..n).map(|_| b' ' + r.below(95) as u8).collect(),
        }
    }

    pub fn fields(&mut self, rtype: u16) -> Vec<F> {
        let sch = schema(rtype).expect("typed");
        let mut out: Vec<F> = Vec::new();
        for k in sch {
            let f = match *k {
                K::U8 => F::Int(self.r.int(8)),
                K::U16 => F::Int(self.r.int(16)),
                K::U24 => F::Int(self.r.int(24)),
                K::U32 => F::Int(self.r.int(32)),
                K::U48 => F::Int(self.r.int(48)),
                K::Fixed(n) => {
                    let v = match self.r.below(4) {
                        0 => vec![0u8; n],
                        1 => vec![0xFFu8; n],
                        _ => self.r.bytes(n),
                    };
                    F::Bytes(v)
                }
                K::Str => F::Bytes(self.string()),
                K::Name(_) => F::Name(self.name()),
                K::Rest => {
                    let m = self.cfg.max_rest;
                    F::Bytes(self.blob(m))
                }
                K::Strs => {
                    let n = match self.r.below(6) {
                        0 => 1,
                        _ => self.r.usize(1, 8),
                    };
                    F::List((0..n).map(|_| self.string()).collect())
                }
                K::Opts => {
                    let n = self.r.usize(0, 4);
                    F::Pairs(
                        (0..n)
                            .map(|_| {
                                let l = match self.r.below(6) {
                                    0 => 0,
                                    1 => 300,
                                    _ => self.r.usize(0, 20),
                                };
                                (self.r.int(16) as u16, self.r.bytes(l))
                            })
                            .collect(),
                    )
                }
                K::Params => {
                    let n = self.r.usize(0, 6);
                    let mut keys: Vec<u16> = (0..n)
                        .map(|_| {
                            if self.r.bool() {
                                self.r.below(8) as u16
                            } else {
                                self.r.int(16) as u16
                            }
                        })
                        .collect();
                    keys.sort();
                    keys.dedup();
                    F::Pairs(
                        keys.into_iter()
                            .map(|k| {
                                let l = self.r.usize(0, 18);
                                (k, self.r.bytes(l))
                            })
                            .collect(),
                    )
                }
                K::Windows => {
                    let n = self.r.usize(0, 4);
                    let mut ws: Vec<u16> = (0..n)
                        .map(|_| {
                            if self.r.bool() {
                                self.r.below(4) as u16
                            } else {
                                self.r.below(256) as u16
                            }
                        })
                        .collect();
                    ws.sort();
                    ws.dedup();
                    F::Pairs(
                        ws.into_iter()
                            .map(|w| {
                                // 1..32 is what RFC 4034 allows; 0 and > 32 are lengths a foreign sender can put on the
                                // wire and the library holds and writes back like any other
                                let l = *self.r.pick(&[1usize, 2, 7, 31, 32, 1, 2, 6, 0, 33, 255]);
                                (w, self.r.bytes(l))
                            })
                            .collect(),
                    )
                }
                K::Gw => {
                    let g = match out.get(1) {
                        Some(F::Int(0)) => GwM::None,
                        Some(F::Int(1)) => {
                            let b = self.r.bytes(4);
                            GwM::V4([b[0], b[1], b[2], b[3]])
                        }
                        Some(F::Int(2)) => {
                            let b = self.r.bytes(16);
                            let mut a = [0u8; 16];
                            a.copy_from_slice(&b);
                            GwM::V6(a)
                        }
                        _ => GwM::Name(self.name()),
                    };
                    F::Gw(g)
                }
            };
            out.push(f);
            // IPSECKEY: the gateway-type field must be 0..3 in a valid record
            if rtype == 45 && out.len() == 2 {
                out[1] = F::Int(self.r.below(4));
            }
            if rtype == 29 && out.len() == 1 {
                out[0] = F::Int(0);
            }
        }
        out
    }

    pub fn ttl(&mut self) -> u32 {
        self.r.int(32) as u32
    }

    pub fn rtype(&mut self) -> u16 {
        if !self.cfg.types.is_empty() {
            return *self.r.pick(&self.cfg.types);
        }
        loop {
            let t = *self.r.pick(&TYPED_CODES);
            if t != 41 {
                return t;
            }
        }
    }

    pub fn record_of(&mut self, rtype: u16) -> RecSem {
        let rd = Rd::Fields(self.fields(rtype));
        RecSem {
            name: self.name(),
            rtype,
            class: *self.r.pick(&CLASSES),
            flush: self.r.chance(1, 4),
            ttl: self.ttl(),
            rd,
        }
    }

    pub fn unknown_code(&mut self) -> u16 {
        loop {
            let c = match self.r.below(4) {
                0 => *self.r.pick(&[0u16, 10, 19, 24, 25, 30, 99, 250, 251, 255, 256, 258, 65535]),
                _ => self.r.int(16) as u16,
            };
            if schema(c).is_none() {
                return c;
            }
        }
    }

    pub fn record(&mut self) -> RecSem {
        if self.cfg.exotic && self.r.chance(1, 8) {
            // unknown type / NULL / empty rdata of any type
            let (rtype, rd) = match self.r.below(3) {
                0 => {
                    let t = if self.r.bool() { self.rtype() } else { self.unknown_code() };
                    (t, Rd::Opaque(vec![]))
                }
                _ => {
                    let c = self.unknown_code();
                    let m = self.cfg.max_rest;
                    (c, Rd::Opaque(self.blob(m)))
                }
            };
            return RecSem {
                name: self.name(),
                rtype,
                class: *self.r.pick(&CLASSES),
                flush: self.r.chance(1, 4),
                ttl: self.ttl(),
                rd,
            };
        }
        let t = self.rtype();
        self.record_of(t)
    }

    pub fn qtype(&mut self) -> u16 {
        match self.r.below(4) {
            0 => *self.r.pick(&[251u16, 252, 253, 254, 255]),
            1 => 10,
            _ => *self.r.pick(&TYPED_CODES),
        }
    }

    pub fn question(&mut self) -> QSem {
        QSem {
            name: self.name(),
            qtype: self.qtype(),
            qclass: *self.r.pick(&[1u16, 2, 3, 4, 254, 255]),
            unicast: self.r.chance(1, 3),
        }
    }

    pub fn edns(&mut self) -> EdnsM {
        let opts = match self.fields(41).pop() {
            Some(F::Pairs(p)) => p,
            _ => vec![],
        };
        EdnsM {
            udp: self.r.int(16) as u16,
            version: self.r.int(8) as u8,
            opts,
        }
    }

    pub fn packet(&mut self) -> PktM {
        let me = self.cfg.max_entries;
        let mut p = PktM {
            id: self.r.int(16) as u16,
            flags: (self.r.next() as u16) & FLAG_MASK,
            opcode: *self.r.pick(&NAMED_OPCODES),
            rcode: *self.r.pick(&NAMED_RCODES_LOW),
            ..Default::default()
        };
        if self.r.below(100) < self.cfg.edns {
            p.edns = Some(self.edns());
            if self.r.chance(1, 4) {
                p.rcode = 16;
            }
        }
        let nq = self.r.usize(0, me.min(3));
        for _ in 0..nq {
            p.qs.push(self.question());
        }
        for s in 0..3 {
            let n = if self.r.chance(1, 3) { 0 } else { self.r.usize(0, me) };
            for _ in 0..n {
                let rec = self.record();
                p.secs[s].push(rec);
            }
        }
        p
    }
}

/// Mixed-radix decoding helper for bounded-exhaustive enumerations.
pub fn digits(mut idx: u64, base: u64, n: usize) -> Vec<usize> {
    let mut v = Vec::with_capacity(n);
    for _ in 0..n {
        v.push((idx % base) as usize);
        idx /= base;
    }
    v
}
