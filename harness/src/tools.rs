//! Tool sub-runs of the thorough tier: Miri, libFuzzer+ASan, valgrind memcheck.
//! Every report of a tool is triaged before it may become a VIOLATION: Miri reports must not point into the
//! harness' own unsafe code, fuzzer artefacts are replayed through the plain harness, tool failures
//! (build problems, timeouts, missing tools) are inconclusive.

use crate::ctx::{Ctx, Tier};
use crate::props;
use serde_json::{json, Value};
use std::path::Path;
use std::process::{Command, Stdio};
use std::time::{Duration, Instant};

pub struct ToolOut {
    pub shard_jsons: Vec<Value>,
    pub violations: Vec<Value>,
    pub inconclusive: Vec<String>,
    pub summary: Vec<Value>,
}

fn wait_all(children: Vec<(usize, std::process::Child)>, cap: Duration) -> Vec<(usize, Option<std::process::ExitStatus>)> {
    let t0 = Instant::now();
    let mut out = Vec::new();
    let mut pending = children;
    while !pending.is_empty() {
        let mut still = Vec::new();
        for (i, mut c) in pending {
            match c.try_wait() {
                Ok(Some(st)) => out.push((i, Some(st))),
                Ok(None) => {
                    if t0.elapsed() > cap {
                        let _ = c.kill();
                        let _ = c.wait();
                        out.push((i, None));
                    } else {
                        still.push((i, c));
                    }
                }
                Err(_) => out.push((i, None)),
            }
        }
        pending = still;
        if !pending.is_empty() {
            std::thread::sleep(Duration::from_millis(200));
        }
    }
    out
}

pub fn run_miri(prop: &str, tier: Tier, seed: u64, root: &Path, nproc: u64, tmp: &Path) -> ToolOut {
    let mut out = ToolOut { shard_jsons: vec![], violations: vec![], inconclusive: vec![], summary: vec![] };
    let t0 = Instant::now();
    let manifest = root.join("harness").join("Cargo.toml");
    let target = root.join("target").join("miri");
    let base = |c: &mut Command| {
        c.arg("+nightly").arg("miri").arg("run").arg("--offline").arg("-q").arg("--manifest-path").arg(&manifest).arg("--target-dir").arg(&target)
            .env("RUSTFLAGS", "--cfg simple_dns_verif").env("CARGO_NET_OFFLINE", "true").env_remove("VERIF_TIER").env_remove("CARGO_TARGET_DIR")
            // cargo looks for .cargo/config.toml from the working directory upwards, not from the manifest: run inside the harness
            // directory so that the path override of a VERIF_REPO run (background validation on a snapshot) applies here too
            .current_dir(root.join("harness"));
    };
    // warm-up build (serialises the compilation; the parallel runs then start at once)
    let mut w = Command::new("cargo");
    base(&mut w);
    let warm = w.arg("--").arg("noop").stdout(Stdio::null()).stderr(Stdio::piped()).output();
    match warm {
        Ok(o) => {
            let e = String::from_utf8_lossy(&o.stderr);
            if e.contains("error: could not compile") || e.contains("error[E") {
                out.inconclusive.push(format!("miri: the harness does not build under Miri: {}", e.chars().rev().take(400).collect::<String>().chars().rev().collect::<String>()));
                return out;
            }
        }
        Err(e) => {
            out.inconclusive.push(format!("miri: cannot start cargo miri: {}", e));
            return out;
        }
    }
    let mut children = Vec::new();
    for i in 0..nproc {
        let so = std::fs::File::create(tmp.join(format!("miri{}.out", i))).unwrap();
        let se = std::fs::File::create(tmp.join(format!("miri{}.err", i))).unwrap();
        let mut c = Command::new("cargo");
        base(&mut c);
        c.arg("--").arg("shard").arg(prop).arg("--tier").arg(tier.name()).arg("--seed").arg(seed.to_string())
            .arg("--shard").arg(i.to_string()).arg("--nshards").arg(nproc.to_string()).arg("--out").arg("-")
            .stdout(so).stderr(se);
        match c.spawn() {
            Ok(ch) => children.push((i as usize, ch)),
            Err(e) => out.inconclusive.push(format!("miri: spawn failed: {}", e)),
        }
    }
    let cap = Duration::from_secs(std::env::var("VERIF_MIRI_CAP_SECS").ok().and_then(|v| v.parse().ok()).unwrap_or(20 * 60));
    let mut ok = 0;
    let mut evals = 0u64;
    let mut stopped_at_cap = 0u64;
    let mut partial_cases = 0u64;
    for (i, st) in wait_all(children, cap) {
        let so = std::fs::read_to_string(tmp.join(format!("miri{}.out", i))).unwrap_or_default();
        let se = std::fs::read_to_string(tmp.join(format!("miri{}.err", i))).unwrap_or_default();
        match st {
            None => {
                // stopped at the cap (Miri's clock is virtual under isolation, so the shard cannot watch its own wall time):
                // what it ran up to then was interpreted without a report, and is counted as such
                let cases = se.lines().filter(|l| l.starts_with("VERIF-TAKE ")).count().saturating_sub(1) as u64; // the last one was in progress
                let reported = se.lines().any(|l| l.starts_with("error: ") && !l.contains("aborting due to"));
                if cases == 0 || reported {
                    out.inconclusive.push(format!("miri: process {} of {} did not finish within {:?} (killed) after {} cases", i, nproc, cap, cases));
                } else {
                    stopped_at_cap += 1;
                    evals += cases;
                    partial_cases += cases;
                }
            }
            Some(s) if s.success() => {
                if let Some(l) = so.lines().find(|l| l.starts_with("VERIF-SHARD-JSON ")) {
                    if let Ok(j) = serde_json::from_str::<Value>(&l["VERIF-SHARD-JSON ".len()..]) {
                        evals += j["evals"].as_u64().unwrap_or(0);
                        out.shard_jsons.push(j);
                        ok += 1;
                        continue;
                    }
                }
                out.inconclusive.push(format!("miri: process {} exited 0 without a summary", i));
            }
            Some(s) => {
                // find the Miri diagnostic
                let lines: Vec<&str> = se.lines().collect();
                let pos = lines.iter().position(|l| l.starts_with("error: ") && !l.contains("aborting due to"));
                let last_case = lines.iter().rev().find(|l| l.starts_with("VERIF-CASE ") || l.starts_with("VERIF-TAKE ")).map(|l| l.to_string()).unwrap_or_default();
                match pos {
                    Some(p) => {
                        let head = lines[p];
                        let excerpt: String = lines[p..lines.len().min(p + 45)].join("\n");
                        let in_harness = excerpt.contains("src/monitor.rs") && !excerpt.contains("simple-dns/src") && !excerpt.contains("simple-mdns/src") && !excerpt.contains("radix_trie") && !excerpt.contains("smallvec") && !excerpt.contains("nibble_vec");
                        if head.contains("unsupported operation") || head.contains("isolation") {
                            out.inconclusive.push(format!("miri: process {}: {}", i, head));
                        } else if in_harness {
                            out.inconclusive.push(format!("miri: process {}: report inside the harness' own monitor code, not the system under test: {}", i, head));
                        } else {
                            let kind = if head.contains("Undefined Behavior") { "undefined-behaviour" } else if head.contains("leak") { "memory-leak" } else if head.contains("deadlock") { "deadlock" } else { "error" };
                            out.violations.push(json!({
                                "clause": "miri", "signature": format!("miri:{}:{}", kind, head.chars().take(120).collect::<String>()),
                                "detail": format!("Miri reported while running shard {}/{} of the {} workload: {}", i, nproc, prop, excerpt),
                                "case": {"tool": "miri", "shard": i, "nshards": nproc, "last_case": last_case}, "count": 1
                            }));
                        }
                    }
                    None => {
                        // a panic outside any guard (exit 101) or an abort
                        let tail: String = lines.iter().rev().take(12).rev().cloned().collect::<Vec<_>>().join("\n");
                        out.inconclusive.push(format!("miri: process {} ended with {:?} without a Miri diagnostic: {}", i, s, tail));
                    }
                }
            }
        }
    }
    out.summary.push(json!({"tool": "miri", "processes": nproc, "finished_ok": ok, "stopped_at_the_time_cap_without_a_report": stopped_at_cap,
        "cases_run_by_the_stopped_processes": partial_cases, "evaluations": evals, "wall_s": t0.elapsed().as_secs_f64(),
        "flags": "default isolation (virtual clock), -q"}));
    out
}

/// Write seeds for the fuzzers: valid corpus messages, hostile messages, stretched messages.
pub fn dump_corpus(dir: &Path, seed: u64) -> usize {
    dump_corpus_for(dir, seed, "")
}

pub fn dump_corpus_for(dir: &Path, seed: u64, target: &str) -> usize {
    let _ = std::fs::create_dir_all(dir);
    let mut n = 0;
    if target == "model" {
        // tapes: random bytes of several lengths (every generator decision reads two of them)
        let mut r = crate::rng::Rng::new(seed ^ 0x7A9E);
        for i in 0..96u64 {
            let len = [64usize, 256, 1024, 4096][(i % 4) as usize];
            let _ = std::fs::write(dir.join(format!("tape-{}", i)), r.bytes(len));
            n += 1;
        }
        return n;
    }
    if target == "pipeline" {
        // sequences of length-prefixed datagrams
        for (i, b) in props::c14::fuzz_seeds(seed).into_iter().enumerate() {
            let _ = std::fs::write(dir.join(format!("seq-{}", i)), b);
            n += 1;
        }
        return n;
    }
    for ci in 0..42 * 8u64 {
        let b = props::c01::corpus_msg(seed, ci).1.bytes;
        let _ = std::fs::write(dir.join(format!("corpus-{}", ci)), b);
        n += 1;
    }
    for i in 0..120u64 {
        let _ = std::fs::write(dir.join(format!("hostile-{}", i)), props::c12::hostile_msg(seed, i));
        let _ = std::fs::write(dir.join(format!("stretch-{}", i)), props::c05::stretched(seed, i));
        n += 2;
    }
    for (i, m) in props::c01::sample_file_messages().into_iter().enumerate() {
        let _ = std::fs::write(dir.join(format!("sample-{}", i)), m);
        n += 1;
    }
    n
}

pub fn run_fuzz(prop: &str, target: &str, tier: Tier, seed: u64, root: &Path, tmp: &Path, secs: u64) -> ToolOut {
    let mut out = ToolOut { shard_jsons: vec![], violations: vec![], inconclusive: vec![], summary: vec![] };
    let t0 = Instant::now();
    let fuzz_dir = root.join("harness").join("fuzz");
    let corpus = tmp.join(format!("fuzz-corpus-{}", target));
    let artifacts = tmp.join(format!("fuzz-artifacts-{}", target));
    let _ = std::fs::create_dir_all(&artifacts);
    let seeds = dump_corpus_for(&corpus, seed, target);
    let log = tmp.join(format!("fuzz-{}.log", target));
    let lf = std::fs::File::create(&log).unwrap();
    let lf2 = lf.try_clone().unwrap();
    // keep Cargo.lock of the fuzz crate in step with the repository's (offline resolution)
    let _ = std::fs::copy(root.join("harness").join("Cargo.lock"), fuzz_dir.join("Cargo.lock"));
    let child = Command::new("cargo")
        .current_dir(&fuzz_dir)
        .arg("+nightly").arg("fuzz").arg("run").arg(target).arg(&corpus).arg("--")
        .arg(format!("-max_total_time={}", secs)).arg("-timeout=10").arg("-rss_limit_mb=4096").arg("-malloc_limit_mb=1024").arg("-max_len=65535")
        .arg("-fork=16").arg("-ignore_crashes=1").arg("-ignore_timeouts=1").arg("-ignore_ooms=1")
        .arg(format!("-artifact_prefix={}/", artifacts.display()))
        .env("RUSTFLAGS", "--cfg simple_dns_verif").env("CARGO_NET_OFFLINE", "true").env_remove("CARGO_TARGET_DIR").env_remove("VERIF_TIER")
        .env("VERIF_MODEL_SEL", prop)
        .stdout(lf).stderr(lf2).spawn();
    let child = match child {
        Ok(c) => c,
        Err(e) => {
            out.inconclusive.push(format!("libFuzzer: cannot start cargo fuzz: {}", e));
            return out;
        }
    };
    let st = wait_all(vec![(0, child)], Duration::from_secs(secs + 600));
    let logtxt = std::fs::read_to_string(&log).unwrap_or_default();
    if st[0].1.is_none() {
        out.inconclusive.push("libFuzzer: campaign did not finish in time (killed)".into());
    }
    if logtxt.contains("error: could not compile") || logtxt.contains("failed to build fuzz script") {
        out.inconclusive.push(format!("libFuzzer: the fuzz target does not build: {}", logtxt.chars().rev().take(600).collect::<String>().chars().rev().collect::<String>()));
        return out;
    }
    // triage artefacts by replaying them through the plain harness
    let mut arts: Vec<std::path::PathBuf> = std::fs::read_dir(&artifacts).map(|rd| rd.flatten().map(|e| e.path()).collect()).unwrap_or_default();
    arts.sort();
    let mut confirmed = 0;
    let mut unconfirmed = 0;
    // each artefact is replayed by the plain harness in a process of its own (a hanging input then meets that process's
    // CPU watchdog instead of stalling this one); only what the plain harness reports is believed
    let family = if target == "model" { "fuzz-tape" } else { "fuzz-artifact" };
    let exe = std::env::current_exe().unwrap();
    let mut seen_sigs: std::collections::HashSet<String> = std::collections::HashSet::new();
    for (k, a) in arts.iter().take(120).enumerate() {
        let Ok(bytes) = std::fs::read(a) else { continue };
        let case = json!({"family": family, "idx": 0, "bytes": crate::refdns::hex(&bytes)});
        let rp = tmp.join(format!("fuzz-replay-{}-{}.json", target, k));
        let _ = std::fs::write(&rp, serde_json::to_string(&json!({"property": prop, "tier": tier.name(), "seed": seed, "case": case})).unwrap());
        let so = tmp.join(format!("fuzz-replay-{}-{}.out", target, k));
        let child = Command::new(&exe).arg("replay").arg(&rp).env_remove("VERIF_TIER")
            .stdout(std::fs::File::create(&so).unwrap()).stderr(Stdio::null()).spawn();
        let Ok(child) = child else { unconfirmed += 1; continue };
        let st = wait_all(vec![(0, child)], Duration::from_secs(120));
        let text = std::fs::read_to_string(&so).unwrap_or_default();
        let is_violation = st[0].1.map(|s| s.code() == Some(1)).unwrap_or(false) && text.lines().any(|l| l.starts_with("VIOLATION property="));
        if !is_violation {
            unconfirmed += 1;
            continue;
        }
        confirmed += 1;
        let mut any = false;
        for l in text.lines() {
            // "  [clause] signature :: detail"
            if let Some(rest) = l.strip_prefix("  [") {
                if let Some((clause, rest)) = rest.split_once("] ") {
                    if let Some((sig, detail)) = rest.split_once(" :: ") {
                        any = true;
                        if seen_sigs.insert(sig.to_string()) {
                            out.violations.push(json!({"clause": clause, "signature": sig, "detail": format!("(input found by libFuzzer, confirmed by the plain harness) {}", detail), "case": case, "count": 1}));
                        }
                    }
                }
            }
        }
        if !any && seen_sigs.insert("replay-violation".to_string()) {
            out.violations.push(json!({"clause": "replay", "signature": "fuzz-artifact-violates-on-replay", "detail": format!("(input found by libFuzzer) the plain harness reports a violation on replay: {}", text.lines().rev().take(3).collect::<Vec<_>>().join(" | ")), "case": case, "count": 1}));
        }
    }
    // fork mode prints "#<execs>: cov: <edges> ft: ... corp: ... exec/s ..." status lines
    let execs: u64 = logtxt.lines().rev().find_map(|l| {
        if l.starts_with('#') && l.contains("cov: ") { l[1..].split(':').next().and_then(|n| n.trim().parse().ok()) } else { None }
    }).or_else(|| logtxt.lines().rev().find_map(|l| l.split("Done ").nth(1).and_then(|r| r.split(' ').next()).and_then(|n| n.parse().ok()))).unwrap_or(0);
    let cov: u64 = logtxt.lines().rev().find_map(|l| l.split("cov: ").nth(1).and_then(|r| r.split(' ').next()).and_then(|n| n.parse().ok())).unwrap_or(0);
    let corpus_after = std::fs::read_dir(&corpus).map(|d| d.count()).unwrap_or(0);
    if execs == 0 && cov == 0 && arts.is_empty() {
        out.inconclusive.push("libFuzzer: no execution statistics found in the log (campaign did not run?)".into());
    }
    out.summary.push(json!({"tool": "libFuzzer+ASan", "target": target, "seed_inputs": seeds, "corpus_after": corpus_after, "executions_reported": execs, "coverage_edges": cov,
        "artifacts": arts.len(), "artifact_names": arts.iter().take(10).map(|a| a.file_name().map(|n| n.to_string_lossy().to_string()).unwrap_or_default()).collect::<Vec<_>>(),
        "artifacts_confirmed_by_plain_harness": confirmed, "artifacts_not_confirmed_(ignored)": unconfirmed, "seconds": secs, "wall_s": t0.elapsed().as_secs_f64()}));
    out
}

pub fn run_valgrind_c14(tier: Tier, seed: u64, _root: &Path, tmp: &Path) -> ToolOut {
    let mut out = ToolOut { shard_jsons: vec![], violations: vec![], inconclusive: vec![], summary: vec![] };
    let t0 = Instant::now();
    let exe = std::env::current_exe().unwrap();
    let res = tmp.join("valgrind-shard.json");
    let log = tmp.join("valgrind.log");
    let child = Command::new("valgrind")
        .arg("--error-exitcode=99").arg("--leak-check=no").arg("--num-callers=30").arg("-q").arg(format!("--log-file={}", log.display()))
        .arg(&exe).arg("shard").arg("C14").arg("--tier").arg(tier.name()).arg("--seed").arg(seed.to_string())
        .arg("--shard").arg("0").arg("--nshards").arg("1").arg("--out").arg(&res).arg("--slow-tool").arg("--budget").arg("900")
        .env("VERIF_C14_LEVEL2_ONLY", "1").env_remove("VERIF_TIER")
        .stdout(Stdio::null()).stderr(Stdio::null()).spawn();
    let child = match child {
        Ok(c) => c,
        Err(e) => {
            out.inconclusive.push(format!("valgrind: cannot start: {}", e));
            return out;
        }
    };
    let st = wait_all(vec![(0, child)], Duration::from_secs(25 * 60));
    let logtxt = std::fs::read_to_string(&log).unwrap_or_default();
    match st[0].1 {
        None => out.inconclusive.push("valgrind: run did not finish in time (killed)".into()),
        Some(s) => {
            let errors = logtxt.lines().filter(|l| l.contains("Invalid read") || l.contains("Invalid write") || l.contains("uninitialised") || l.contains("Invalid free") || l.contains("Mismatched free")).count();
            if s.code() == Some(99) || errors > 0 {
                let excerpt: String = logtxt.lines().take(60).collect::<Vec<_>>().join("\n");
                let in_lib = excerpt.contains("simple_dns") || excerpt.contains("simple_mdns") || excerpt.contains("socket2") || excerpt.contains("radix_trie");
                if in_lib {
                    out.violations.push(json!({"clause": "memcheck", "signature": "valgrind-memcheck-error", "detail": format!("valgrind memcheck reported errors while the real services handled datagrams: {}", excerpt), "case": {"tool": "valgrind"}, "count": 1}));
                } else {
                    out.inconclusive.push(format!("valgrind: errors reported outside the two crates: {}", excerpt.chars().take(500).collect::<String>()));
                }
            } else if !s.success() {
                out.inconclusive.push(format!("valgrind: harness exited with {:?}", s));
            }
            if let Some(j) = std::fs::read_to_string(&res).ok().and_then(|t| serde_json::from_str::<Value>(&t).ok()) {
                out.summary.push(json!({"tool": "valgrind memcheck", "level2_counters": j["counters"], "memcheck_error_lines": errors, "wall_s": t0.elapsed().as_secs_f64()}));
                out.shard_jsons.push(j);
            } else {
                out.inconclusive.push("valgrind: no shard summary produced".into());
            }
        }
    }
    out
}
