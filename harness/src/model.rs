//! Semantic packet model (what a user of the library can observe) and its RFC wire expectation.

use crate::refdns::*;

pub const FLAG_MASK: u16 = 0x87B0; // QR AA TC RD RA AD CD
pub const OPCODE_RESERVED: u16 = 0xFF;
pub const RCODE_RESERVED: u16 = 0xFFFF;
pub const NAMED_OPCODES: [u16; 5] = [0, 1, 2, 4, 5];
pub const NAMED_RCODES_LOW: [u16; 11] = [0, 1, 2, 3, 4, 5, 6, 7, 8, 9, 10];
pub const CLASSES: [u16; 5] = [1, 2, 3, 4, 254];

#[derive(Clone, Debug, PartialEq, Eq, Hash)]
pub struct EdnsM {
    pub udp: u16,
    pub version: u8,
    pub opts: Vec<(u16, Vec<u8>)>,
}

#[derive(Clone, Debug, PartialEq, Eq, Hash)]
pub struct QSem {
    pub name: NameM,
    pub qtype: u16,
    pub qclass: u16,
    pub unicast: bool,
}

#[derive(Clone, Debug, PartialEq, Eq, Hash)]
pub struct RecSem {
    pub name: NameM,
    pub rtype: u16,
    pub class: u16,
    pub flush: bool,
    pub ttl: u32,
    pub rd: Rd,
}

#[derive(Clone, Debug, PartialEq, Eq, Hash, Default)]
pub struct PktM {
    pub id: u16,
    /// the seven flag bits, in their RFC positions
    pub flags: u16,
    pub opcode: u16,
    /// 12-bit response code (or RCODE_RESERVED when the library says `Reserved`)
    pub rcode: u16,
    pub edns: Option<EdnsM>,
    pub qs: Vec<QSem>,
    pub secs: [Vec<RecSem>; 3],
}

impl RecSem {
    pub fn to_wire(&self) -> RRM {
        RRM::new(
            self.name.clone(),
            self.rtype,
            self.class | if self.flush { 0x8000 } else { 0 },
            self.ttl,
            self.rd.clone(),
        )
    }
}

impl PktM {
    /// RFC wire expectation. The OPT pseudo-record is placed at `opt_index` of the additional
    /// section (clamped).
    pub fn to_wire(&self, opt_index: usize) -> MsgM {
        let mut m = MsgM {
            id: self.id,
            flags: (self.flags & FLAG_MASK) | ((self.opcode & 0xF) << 11) | (self.rcode & 0xF),
            ..Default::default()
        };
        for q in &self.qs {
            m.qs.push(QM {
                name: q.name.clone(),
                qtype: q.qtype,
                qclass: q.qclass | if q.unicast { 0x8000 } else { 0 },
            });
        }
        for s in 0..3 {
            for r in &self.secs[s] {
                m.secs[s].push(r.to_wire());
            }
        }
        if let Some(e) = &self.edns {
            let ttl = (((self.rcode >> 4) as u32 & 0xFF) << 24) | ((e.version as u32) << 16);
            let rr = RRM::new(
                vec![],
                41,
                e.udp,
                ttl,
                Rd::Fields(vec![F::Pairs(e.opts.clone())]),
            );
            let i = opt_index.min(m.secs[2].len());
            m.secs[2].insert(i, rr);
        }
        m
    }
}

pub fn short_rd(rd: &Rd) -> String {
    let s = format!("{:?}", rd);
    if s.len() > 300 {
        format!("{}…({} chars)", &s[..300], s.len())
    } else {
        s
    }
}

/// Field-by-field difference of two packet models (None = equal).
pub fn diff_pkt(a: &PktM, b: &PktM) -> Option<String> {
    if a.id != b.id {
        return Some(format!("id {} vs {}", a.id, b.id));
    }
    if a.flags != b.flags {
        return Some(format!("flags {:#06x} vs {:#06x}", a.flags, b.flags));
    }
    if a.opcode != b.opcode {
        return Some(format!("opcode {} vs {}", a.opcode, b.opcode));
    }
    if a.rcode != b.rcode {
        return Some(format!("rcode {} vs {}", a.rcode, b.rcode));
    }
    if a.edns != b.edns {
        return Some(format!("edns {:?} vs {:?}", a.edns, b.edns));
    }
    if a.qs.len() != b.qs.len() {
        return Some(format!("question count {} vs {}", a.qs.len(), b.qs.len()));
    }
    for (i, (x, y)) in a.qs.iter().zip(b.qs.iter()).enumerate() {
        if x != y {
            return Some(format!("question[{}] {:?} vs {:?}", i, x, y));
        }
    }
    for s in 0..3 {
        if a.secs[s].len() != b.secs[s].len() {
            return Some(format!(
                "section {} length {} vs {}",
                s,
                a.secs[s].len(),
                b.secs[s].len()
            ));
        }
        for (i, (x, y)) in a.secs[s].iter().zip(b.secs[s].iter()).enumerate() {
            if x != y {
                let what = if x.name != y.name {
                    format!("owner {} vs {}", name_text(&x.name), name_text(&y.name))
                } else if x.rtype != y.rtype {
                    format!("type {} vs {}", x.rtype, y.rtype)
                } else if x.class != y.class {
                    format!("class {} vs {}", x.class, y.class)
                } else if x.flush != y.flush {
                    format!("cache-flush {} vs {}", x.flush, y.flush)
                } else if x.ttl != y.ttl {
                    format!("ttl {} vs {}", x.ttl, y.ttl)
                } else {
                    format!("rdata {} vs {}", short_rd(&x.rd), short_rd(&y.rd))
                };
                return Some(format!(
                    "section {} record[{}] type {}: {}",
                    s,
                    i,
                    type_name(x.rtype),
                    what
                ));
            }
        }
    }
    None
}
