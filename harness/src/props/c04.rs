//! C04 – serialised messages are well-framed and all writers agree.

use super::common::*;
use crate::bridge;
use crate::ctx::*;
use crate::gen::{Cfg, Gen};
use crate::model::*;
use crate::monitor;
use crate::refdns::*;
use crate::rng::{fnv, Rng};
use serde_json::json;
use simple_dns::Packet;
use std::io::{Cursor, Seek, SeekFrom, Write};

pub fn meta() -> Meta {
    Meta {
        rule: "for generated packets (C02/C03 generators) x {plain, compressed}: the vector output is walked by the independent typed \
decoder (header counts = entries found = section lengths + OPT, exactly one TYPE-41 record iff OPT is set, every RDATA decodes under \
its schema consuming exactly RDLENGTH, no trailing bytes); then every writer configuration (Vec fresh/with capacity/pre-filled, \
&mut [u8] and Cursor<&mut [u8]> of every capacity 0..=len+2 (sampled for long messages), Cursor<Vec> at offsets 0/2/k over empty and \
pre-filled storage, Cursor<Box<[u8]>>, short-write writers returning Interrupted, BufWriter over a growable and over a fixed cursor - judged by what has reached the storage when the call returns) must produce the same bytes in the written region, \
leave other bytes untouched, succeed when capacity >= len and return Err (no panic) when smaller. non-trivial = packet with at least \
one record or question; distinct = hash of (model, configuration). Packets with the extended response code BADVERS and no EDNS data are walked the same way. A constructor family builds TXT values through each public constructor (try_from(&str), with_string, add_string, \
with_char_string, try_from(HashMap)) from texts of 0..2100 bytes (every length next to a multiple of 254/255, ASCII and multi-byte), follows them with an A record and walks all four entry points' outputs",
        assumptions: &["reference typed decoder is the framing oracle", "final stream position and the error value are not constrained"],
        exhaustive: false,
        min_distinct: 2000,
    }
}

/// accepts at most 3 bytes per call; every 5th call reports Interrupted
pub struct ShortWriter {
    pub buf: Vec<u8>,
    pub pos: usize,
    pub calls: usize,
}
impl Write for ShortWriter {
    fn write(&mut self, b: &[u8]) -> std::io::Result<usize> {
        self.calls += 1;
        if self.calls % 5 == 0 {
            return Err(std::io::Error::new(std::io::ErrorKind::Interrupted, "try again"));
        }
        let n = b.len().min(3);
        for x in &b[..n] {
            if self.pos < self.buf.len() {
                self.buf[self.pos] = *x;
            } else {
                self.buf.push(*x);
            }
            self.pos += 1;
        }
        Ok(n)
    }
    fn flush(&mut self) -> std::io::Result<()> {
        Ok(())
    }
}
impl Seek for ShortWriter {
    fn seek(&mut self, p: SeekFrom) -> std::io::Result<u64> {
        let np = match p {
            SeekFrom::Start(o) => o as i64,
            SeekFrom::End(o) => self.buf.len() as i64 + o,
            SeekFrom::Current(o) => self.pos as i64 + o,
        };
        if np < 0 {
            return Err(std::io::Error::new(std::io::ErrorKind::InvalidInput, "negative seek"));
        }
        self.pos = np as usize;
        while self.buf.len() < self.pos {
            self.buf.push(0);
        }
        Ok(self.pos as u64)
    }
}

/// accepts `limit` bytes in total, then every write fails with an I/O error (fault injection)
struct FailingWriter {
    buf: Vec<u8>,
    pos: usize,
    limit: usize,
}
impl Write for FailingWriter {
    fn write(&mut self, b: &[u8]) -> std::io::Result<usize> {
        if b.is_empty() {
            return Ok(0);
        }
        // overwriting bytes that were already accepted (RDLENGTH back-patch) is allowed; growing past `limit` is not
        let available = if self.pos < self.buf.len() { self.buf.len() - self.pos } else { self.limit.saturating_sub(self.pos) };
        if available == 0 {
            return Err(std::io::Error::new(std::io::ErrorKind::Other, "injected write fault"));
        }
        let n = b.len().min(available);
        for x in &b[..n] {
            if self.pos < self.buf.len() {
                self.buf[self.pos] = *x
            } else {
                self.buf.push(*x)
            }
            self.pos += 1;
        }
        Ok(n)
    }
    fn flush(&mut self) -> std::io::Result<()> {
        Ok(())
    }
}
impl Seek for FailingWriter {
    fn seek(&mut self, p: SeekFrom) -> std::io::Result<u64> {
        let np = match p {
            SeekFrom::Start(o) => o as i64,
            SeekFrom::End(o) => self.buf.len() as i64 + o,
            SeekFrom::Current(o) => self.pos as i64 + o,
        };
        if np < 0 {
            return Err(std::io::Error::new(std::io::ErrorKind::InvalidInput, "negative seek"));
        }
        self.pos = np as usize;
        Ok(self.pos as u64)
    }
}

const FILL: u8 = 0xA5;

enum Outcome {
    Ok(Vec<u8>),
    Err,
    Panic(monitor::PanicRec),
}

fn run_cfg(pk: &Packet, compressed: bool, cfg: &str, k: usize, cap: usize) -> Outcome {
    // returns the whole backing storage after the call
    let r = monitor::guard(|| -> Result<Vec<u8>, ()> {
        match (compressed, cfg) {
            (false, "vec") => {
                let mut v = vec![FILL; k];
                v.reserve(cap);
                pk.write_to(&mut v).map_err(|_| ())?;
                Ok(v)
            }
            (false, "slice") => {
                let mut store = vec![FILL; cap];
                {
                    let mut s: &mut [u8] = &mut store[..];
                    pk.write_to(&mut s).map_err(|_| ())?;
                }
                Ok(store)
            }
            (false, "cursor_slice") => {
                let mut store = vec![FILL; k + cap];
                {
                    let mut c = Cursor::new(&mut store[..]);
                    c.set_position(k as u64);
                    pk.write_to(&mut c).map_err(|_| ())?;
                }
                Ok(store)
            }
            (true, "cursor_slice") => {
                let mut store = vec![FILL; k + cap];
                {
                    let mut c = Cursor::new(&mut store[..]);
                    c.set_position(k as u64);
                    pk.write_compressed_to(&mut c).map_err(|_| ())?;
                }
                Ok(store)
            }
            (true, "cursor_box") => {
                let store = vec![FILL; k + cap].into_boxed_slice();
                let mut c = Cursor::new(store);
                c.set_position(k as u64);
                pk.write_compressed_to(&mut c).map_err(|_| ())?;
                Ok(c.into_inner().into_vec())
            }
            (_, "cursor_vec") => {
                // `cap` = pre-filled length of the storage (may be longer than the message)
                let mut c = Cursor::new(vec![FILL; cap]);
                c.set_position(k as u64);
                if compressed {
                    pk.write_compressed_to(&mut c).map_err(|_| ())?;
                } else {
                    pk.write_to(&mut c).map_err(|_| ())?;
                }
                Ok(c.into_inner())
            }
            (_, "buffered_vec") | (_, "buffered_vec_small") => {
                // a buffering writer: what counts is what has reached the storage when the call returns (no flush of ours)
                let bufcap = if cfg == "buffered_vec" { 70_000 } else { 7 };
                let mut c = Cursor::new(vec![FILL; cap]);
                c.set_position(k as u64);
                let mut bw = std::io::BufWriter::with_capacity(bufcap, c);
                if compressed {
                    pk.write_compressed_to(&mut bw).map_err(|_| ())?;
                } else {
                    pk.write_to(&mut bw).map_err(|_| ())?;
                }
                // what is still buffered is discarded: it did not reach the storage during the call
                let (inner, _pending) = bw.into_parts();
                Ok(inner.into_inner())
            }
            (_, "buffered_slice") => {
                let mut store = vec![FILL; k + cap];
                let seen;
                {
                    let mut c = Cursor::new(&mut store[..]);
                    c.set_position(k as u64);
                    let mut bw = std::io::BufWriter::with_capacity(70_000, c);
                    let r = if compressed { pk.write_compressed_to(&mut bw) } else { pk.write_to(&mut bw) };
                    seen = bw.get_ref().get_ref().to_vec();
                    // what is still buffered is discarded: it never reached the storage during the call
                    let (_inner, _pending) = bw.into_parts();
                    r.map_err(|_| ())?;
                }
                Ok(seen)
            }
            (_, "failing") => {
                // `cap` = number of bytes accepted before the injected fault
                let mut w = FailingWriter { buf: Vec::new(), pos: 0, limit: cap };
                if compressed {
                    pk.write_compressed_to(&mut w).map_err(|_| ())?;
                } else {
                    pk.write_to(&mut w).map_err(|_| ())?;
                }
                Ok(w.buf)
            }
            (_, "short") => {
                let mut w = ShortWriter { buf: vec![FILL; cap], pos: k, calls: 0 };
                while w.buf.len() < k {
                    w.buf.push(FILL);
                }
                if compressed {
                    pk.write_compressed_to(&mut w).map_err(|_| ())?;
                } else {
                    pk.write_to(&mut w).map_err(|_| ())?;
                }
                Ok(w.buf)
            }
            _ => unreachable!(),
        }
    });
    match r {
        Ok(Ok(v)) => Outcome::Ok(v),
        Ok(Err(())) => Outcome::Err,
        Err(p) => Outcome::Panic(p),
    }
}

fn capacities(r: &mut Rng, len: usize) -> Vec<usize> {
    if len <= 90 {
        return (0..=len + 2).collect();
    }
    let mut v = vec![0, 1, 2, 11, 12, 13, len / 2];
    for _ in 0..6 {
        v.push(r.usize(0, len));
    }
    for c in len.saturating_sub(4)..=len + 2 {
        v.push(c);
    }
    v.sort();
    v.dedup();
    v
}

fn framing(ctx: &mut Ctx, family: &str, idx: u64, p: &PktM, lib: &Packet, out: &[u8], what: &str) {
    let t = match decode_typed(out) {
        Ok(t) => t,
        Err(e) => {
            let sig = match &e {
                TypedErr::Env(_) => format!("framing:{}:envelope", what),
                TypedErr::Rd { rtype, .. } => format!("framing:{}:rdata:{}", what, type_name(*rtype)),
            };
            ctx.violation(
                "well-framed",
                &sig,
                format!("independent walker failed on the output of {}: {:?}", what, e),
                gen_case(family, idx, p, json!({"bytes": hex(out)})),
            );
            return;
        }
    };
    ctx.add("records_walked", (t.env.secs[0].len() + t.env.secs[1].len() + t.env.secs[2].len()) as u64);
    if t.env.end != out.len() {
        ctx.violation(
            "well-framed",
            &format!("framing:{}:trailing-bytes", what),
            format!("{} bytes follow the last entry announced by the header", out.len() - t.env.end),
            gen_case(family, idx, p, json!({"bytes": hex(out)})),
        );
    }
    let opt = lib.opt().is_some() as usize;
    let want = [lib.questions.len(), lib.answers.len(), lib.name_servers.len(), lib.additional_records.len() + opt];
    let got = [t.env.qs.len(), t.env.secs[0].len(), t.env.secs[1].len(), t.env.secs[2].len()];
    if want != got || t.env.counts.iter().map(|c| *c as usize).collect::<Vec<_>>() != want {
        ctx.violation(
            "counts",
            &format!("framing:{}:counts", what),
            format!("header counts {:?}, entries found {:?}, section lengths(+opt) {:?}", t.env.counts, got, want),
            gen_case(family, idx, p, json!({"bytes": hex(out)})),
        );
    }
    let user_opts = p.secs.iter().flatten().filter(|r| r.rtype == 41).count();
    let n41_add = t.env.secs[2].iter().filter(|r| r.rtype == 41).count();
    let n41_other = t.env.secs[0].iter().chain(t.env.secs[1].iter()).filter(|r| r.rtype == 41).count();
    if user_opts == 0 && (n41_add != opt || n41_other != 0) {
        ctx.violation(
            "opt-once",
            &format!("framing:{}:opt-count", what),
            format!("{} TYPE-41 records in additional ({} elsewhere), OPT set: {}", n41_add, n41_other, opt),
            gen_case(family, idx, p, json!({"bytes": hex(out)})),
        );
    }
}

pub fn check_one(ctx: &mut Ctx, family: &str, idx: u64, p: &PktM) {
    let lib = match monitor::guard(|| bridge::to_lib(p)) {
        Ok(Ok(l)) => l,
        _ => {
            ctx.count("generator_outside_constructor_domain");
            return;
        }
    };
    let nontrivial = !p.qs.is_empty() || p.secs.iter().any(|s| !s.is_empty());
    let ph = fnv(format!("{:?}", p).as_bytes());
    let mut r = ctx.rng("c04-caps", idx);
    for compressed in [false, true] {
        let what = if compressed { "build_bytes_vec_compressed" } else { "build_bytes_vec" };
        let out = match build(&lib, compressed) {
            Built::Ok(b) => b,
            Built::Err(e) => {
                ctx.violation("build-succeeds", &format!("build-error:{}:{}", what, first_type(p)),
                    format!("{} failed: {}", what, e), gen_case(family, idx, p, json!({})));
                continue;
            }
            Built::Panic(pn) => {
                ctx.panic_violation(what, &pn, gen_case(family, idx, p, json!({})));
                continue;
            }
        };
        ctx.case(nontrivial, ph ^ compressed as u64);
        framing(ctx, family, idx, p, &lib, &out, what);
        let len = out.len();
        let kk = r.usize(3, 40);
        // (cfg, k, cap, must_succeed)
        let mut cfgs: Vec<(&str, usize, usize)> = Vec::new();
        if !compressed {
            cfgs.push(("vec", 0, 0));
            cfgs.push(("vec", 0, len + 50));
            cfgs.push(("vec", kk, 3));
            for c in capacities(&mut r, len) {
                cfgs.push(("slice", 0, c));
            }
        }
        for c in capacities(&mut r, len) {
            cfgs.push(("cursor_slice", 0, c));
            if compressed {
                cfgs.push(("cursor_box", 0, c));
            }
        }
        for k in [2, kk] {
            for c in [0, len / 2, len.saturating_sub(1), len, len + 1] {
                cfgs.push(("cursor_slice", k, c));
                if compressed {
                    cfgs.push(("cursor_box", k, c));
                }
            }
        }
        for k in [0, 2] {
            cfgs.push(("buffered_vec", k, k));
            cfgs.push(("buffered_vec_small", k, k + len + 9));
            for c in [len.saturating_sub(1), len, len + 3] {
                cfgs.push(("buffered_slice", k, c));
            }
        }
        for k in [0, 2, kk] {
            cfgs.push(("cursor_vec", k, 0)); // empty storage (offset beyond the end pads with zeros)
            cfgs.push(("cursor_vec", k, k)); // storage exactly up to the start
            cfgs.push(("cursor_vec", k, k + len + 60)); // pre-filled, longer than the message
            cfgs.push(("cursor_vec", k, k + len / 2)); // pre-filled, shorter
            cfgs.push(("short", k, 0));
            cfgs.push(("short", k, k + len + 17));
        }
        // fault injection: the writer starts failing after `cap` bytes (a few positions incl. inside the header and the last byte)
        for c in [0usize, 1, 11, 12, len / 3, len / 2, len.saturating_sub(1), len] {
            cfgs.push(("failing", 0, c));
        }
        for (cfg, k, cap) in cfgs {
            let wname = if compressed { "write_compressed_to" } else { "write_to" };
            let label = format!("{}/{}", wname, cfg);
            ctx.case(nontrivial, ph ^ fnv(format!("{}{}{}{}", label, k, cap, compressed).as_bytes()));
            ctx.add(&format!("writer_runs_{}", label), 1);
            let fixed = matches!(cfg, "slice" | "cursor_slice" | "cursor_box" | "failing" | "buffered_slice");
            let fits = !fixed || cap >= len;
            let case = || gen_case(family, idx, p, json!({"writer": label, "start_offset": k, "capacity": cap, "message_len": len}));
            match run_cfg(&lib, compressed, cfg, k, cap) {
                Outcome::Panic(pn) => ctx.panic_violation(&label, &pn, case()),
                Outcome::Err => {
                    if fits {
                        ctx.violation("writer-succeeds", &format!("writer-error:{}", label),
                            format!("{} failed although the writer has room (offset {}, capacity {}, message {})", label, k, cap, len), case());
                    } else {
                        ctx.count("too_small_writers_reported_error");
                    }
                }
                Outcome::Ok(store) => {
                    if !fits {
                        ctx.violation("too-small-writer-errors", &format!("silent-truncation:{}", label),
                            format!("{} returned Ok with capacity {} < message length {}", label, cap, len), case());
                        continue;
                    }
                    // written region
                    let region_ok = store.len() >= k + len && store[k..k + len] == out[..];
                    if !region_ok {
                        let firstdiff = (0..len).find(|i| store.get(k + i) != Some(&out[*i]));
                        ctx.violation("writers-agree", &format!("writer-bytes-differ:{}", label),
                            format!("{} wrote different bytes than {} (first difference at message offset {:?}, start offset {}, storage len {})",
                                label, what, firstdiff, k, store.len()), case());
                        continue;
                    }
                    // untouched bytes outside the region
                    let before_ok = store[..k].iter().all(|b| *b == FILL) || (matches!(cfg, "cursor_vec" | "buffered_vec" | "buffered_vec_small") && cap < k) || (cfg == "short" && cap < k);
                    let after_ok = store[k + len..].iter().all(|b| *b == FILL);
                    if !before_ok || !after_ok {
                        ctx.violation("writers-agree", &format!("writer-touched-outside:{}", label),
                            format!("{} modified bytes outside [{}, {}) (before ok: {}, after ok: {})", label, k, k + len, before_ok, after_ok), case());
                        continue;
                    }
                    ctx.count("writer_configs_agree");
                }
            }
        }
    }
}

/// TXT values made by each public constructor (some cache their encoded size), followed by another record: RDLENGTH must
/// equal the bytes written, whichever constructor and whichever entry point.
pub fn txt_ctor_case(ctx: &mut Ctx, idx: u64, parse_back: bool) {
    use simple_dns::rdata::{RData, A, TXT};
    use simple_dns::{CharacterString, Name, ResourceRecord, CLASS};
    const EDGES: [usize; 17] = [0, 1, 2, 253, 254, 255, 256, 507, 508, 509, 510, 761, 762, 763, 1016, 1270, 1275];
    let mut r = ctx.rng("txt-ctor", idx);
    let ctor = (idx % 5) as usize;
    let len = if (idx / 5) < EDGES.len() as u64 * 3 { EDGES[((idx / 5) % EDGES.len() as u64) as usize] } else { r.usize(0, 2100) };
    // text of exactly `len` bytes: ASCII, or with 2- and 3-byte characters mixed in
    let flavour = (idx / 5 / EDGES.len() as u64) % 3;
    let mut text = String::new();
    while text.len() < len {
        let c = match flavour { 0 => 'x', 1 => *r.pick(&['a', 'é']), _ => *r.pick(&['b', 'é', '€']) };
        if text.len() + c.len_utf8() <= len { text.push(c) } else { text.push('y') }
    }
    let names = ["try_from(&str)", "with_string", "add_string", "with_char_string", "try_from(HashMap)"];
    ctx.case(true, fnv(format!("txt-ctor{}{}", ctor, text).as_bytes()));
    ctx.count(&format!("txt_constructor_{}", names[ctor]));
    let case = || json!({"family": "txt-ctor", "idx": idx, "constructor": names[ctor], "text_bytes": len, "flavour": flavour});
    // pieces that respect character boundaries, each <= 255 bytes
    let mut pieces: Vec<&str> = Vec::new();
    let mut rest = text.as_str();
    while !rest.is_empty() {
        let mut cut = rest.len().min(255);
        while !rest.is_char_boundary(cut) { cut -= 1; }
        pieces.push(&rest[..cut]);
        rest = &rest[cut..];
    }
    let mut map: std::collections::HashMap<String, Option<String>> = std::collections::HashMap::new();
    if ctor == 4 {
        for (i, pc) in pieces.iter().enumerate() {
            let key = format!("k{}", i);
            let room = 255 - key.len() - 1;
            let mut cut = pc.len().min(room);
            while !pc.is_char_boundary(cut) { cut -= 1; }
            map.insert(key, if i % 3 == 2 { None } else { Some(pc[..cut].to_string()) });
        }
    }
    let built = monitor::guard(|| -> Result<Vec<(String, Vec<u8>)>, String> {
        let txt: TXT = match ctor {
            0 => TXT::try_from(text.as_str()).map_err(|e| format!("{:?}", e))?,
            1 => { let mut t = TXT::new(); for pc in &pieces { t = t.with_string(pc).map_err(|e| format!("{:?}", e))?; } t }
            2 => { let mut t = TXT::new(); for pc in &pieces { t.add_string(pc).map_err(|e| format!("{:?}", e))?; } t }
            3 => { let mut t = TXT::new(); for pc in &pieces { t = t.with_char_string(CharacterString::new(pc.as_bytes()).map_err(|e| format!("{:?}", e))?); } t }
            _ => TXT::try_from(map.clone()).map_err(|e| format!("{:?}", e))?,
        };
        let mut pk = Packet::new_reply(idx as u16);
        let owner = Name::new("t.example").map_err(|e| format!("{:?}", e))?;
        pk.answers.push(ResourceRecord::new(owner.clone(), CLASS::IN, 7, RData::TXT(txt)));
        pk.answers.push(ResourceRecord::new(owner, CLASS::IN, 9, RData::A(A { address: 0x0A0B0C0D })));
        let mut outs = Vec::new();
        outs.push(("build_bytes_vec".to_string(), pk.build_bytes_vec().map_err(|e| format!("build_bytes_vec: {:?}", e))?));
        outs.push(("build_bytes_vec_compressed".to_string(), pk.build_bytes_vec_compressed().map_err(|e| format!("build_bytes_vec_compressed: {:?}", e))?));
        let mut v = Vec::new();
        pk.write_to(&mut v).map_err(|e| format!("write_to: {:?}", e))?;
        outs.push(("write_to/vec".to_string(), v));
        let mut c = Cursor::new(Vec::new());
        pk.write_compressed_to(&mut c).map_err(|e| format!("write_compressed_to: {:?}", e))?;
        outs.push(("write_compressed_to/cursor_vec".to_string(), c.into_inner()));
        Ok(outs)
    });
    let outs = match built {
        Err(pn) => return ctx.panic_violation("building a packet with a constructed TXT", &pn, case()),
        Ok(Err(e)) => return ctx.violation("build-succeeds", &format!("build-error:txt-ctor:{}", names[ctor]), format!("TXT made by {} from {} bytes of text: {}", names[ctor], len, e), case()),
        Ok(Ok(o)) => o,
    };
    for (what, out) in outs {
        let problem = match decode_envelope(&out) {
            Err(e) => Some(format!("the envelope walker fails: {:?}", e)),
            Ok(env) => {
                let a = &env.secs[0];
                if env.end != out.len() { Some(format!("{} bytes follow the last entry", out.len() - env.end)) }
                else if a.len() != 2 || a[0].rtype != 16 || a[1].rtype != 1 || a[1].rdlen != 4 || out[a[1].rd_off..a[1].rd_off + 4] != [0x0A, 0x0B, 0x0C, 0x0D] || a[1].ttl != 9 {
                    Some("the record after the TXT record is not the A record that was written".to_string())
                } else {
                    // RDATA: character-strings that fill RDLENGTH exactly and carry the text
                    let rd = &out[a[0].rd_off..a[0].rd_off + a[0].rdlen];
                    let mut pos = 0usize;
                    let mut joined: Vec<u8> = Vec::new();
                    let mut strings: Vec<Vec<u8>> = Vec::new();
                    let mut bad = None;
                    while pos < rd.len() {
                        let l = rd[pos] as usize;
                        if pos + 1 + l > rd.len() { bad = Some("a character-string overruns RDLENGTH".to_string()); break; }
                        joined.extend_from_slice(&rd[pos + 1..pos + 1 + l]);
                        strings.push(rd[pos + 1..pos + 1 + l].to_vec());
                        pos += 1 + l;
                    }
                    if bad.is_some() { bad }
                    else if ctor != 4 && joined != text.as_bytes() { Some("the character-strings do not join to the text".to_string()) }
                    else if ctor == 4 && {
                        let mut want: Vec<Vec<u8>> = map.iter().map(|(k, v)| match v { Some(v) => format!("{}={}", k, v).into_bytes(), None => k.clone().into_bytes() }).collect();
                        want.sort(); strings.sort(); want != strings && !(want.is_empty() && strings == vec![Vec::<u8>::new()])
                    } { Some("the character-strings are not the map's entries".to_string()) }
                    else { None }
                }
            }
        };
        match problem {
            Some(pr) => ctx.violation("rdlength", &format!("framing:{}:txt-constructor:{}", what, names[ctor]),
                format!("TXT made by {} from {} bytes of text, written by {}: {}", names[ctor], len, what, pr), json!({"family": "txt-ctor", "idx": idx, "constructor": names[ctor], "text_bytes": len, "bytes": hex(&out[..out.len().min(700)])})),
            None => {
                ctx.count("txt_constructor_outputs_well_framed");
                if parse_back {
                    // the library reads its own output back as the same two records with the same character-strings
                    let wire: Vec<Vec<u8>> = decode_typed(&out).ok().and_then(|t| match &t.msg.secs[0][0].rd { Rd::Fields(f) => match &f[0] { F::List(l) => Some(l.clone()), _ => None }, _ => None }).unwrap_or_default();
                    let back = monitor::guard(|| Packet::parse(&out).map(|p| (p.answers.len(), p.answers.first().and_then(|a| match &a.rdata { RData::TXT(t) => Some(t.verif_strings().iter().map(|x| x.to_vec()).collect::<Vec<_>>()), _ => None }))).map_err(|e| format!("{:?}", e)));
                    match back {
                        Ok(Ok((2, Some(strings)))) if strings == wire => ctx.count("txt_constructor_outputs_parsed_back"),
                        other => ctx.violation("roundtrip", &format!("parse-own-output:{}:txt-constructor:{}", what, names[ctor]),
                            format!("TXT made by {} from {} bytes of text, written by {}, read back as {:?}", names[ctor], len, what, other.map(|r| r.map(|(n, s)| (n, s.map(|v| v.len()))))),
                            json!({"family": "txt-ctor", "idx": idx, "constructor": names[ctor], "text_bytes": len, "bytes": hex(&out[..out.len().min(700)])})),
                    }
                }
            }
        }
    }
}

/// Names that reach a packet through every public way of making one (validated, unchecked, from labels, `without`, cloned, owned,
/// parsed from another message), as owner and inside RDATA, followed by another record: whatever a name caches about itself,
/// RDLENGTH and the counts must describe what was written, for every entry point.
pub fn derived_names_case(ctx: &mut Ctx, idx: u64) {
    use simple_dns::rdata::{RData, A, MX, PTR, SOA, SRV};
    use simple_dns::{Name, ResourceRecord, CLASS};
    let mut r = ctx.rng("derived-names", idx);
    let labels: Vec<String> = (0..r.usize(2, 6)).map(|i| { let n = r.usize(1, 12); format!("{}{}", (b'a' + (i as u8 % 26)) as char, "x".repeat(n - 1)) }).collect();
    let full = labels.join(".");
    let cut = r.usize(1, labels.len() - 1);
    let suffix = labels[cut..].join(".");
    let how = (idx % 8) as usize;
    let hows = ["new", "new_unchecked", "new_with_labels", "from-label-slice", "without", "without+into_owned", "clone-of-parsed", "without-of-parsed"];
    ctx.case(true, fnv(format!("derived{}{}{}", how, full, cut).as_bytes()));
    ctx.count(&format!("derived_name_{}", hows[how]));
    let case = || json!({"family": "derived-names", "idx": idx, "how": hows[how], "name": full, "suffix": suffix});
    let built = monitor::guard(|| -> Result<(usize, Vec<(String, Vec<u8>)>), String> {
        let base = Name::new(&full).map_err(|e| format!("{:?}", e))?;
        let sfx = Name::new(&suffix).map_err(|e| format!("{:?}", e))?;
        // a message to parse names out of
        let mut src = Packet::new_reply(1);
        src.answers.push(ResourceRecord::new(base.clone(), CLASS::IN, 1, RData::PTR(PTR(base.clone()))));
        let src_bytes = src.build_bytes_vec_compressed().map_err(|e| format!("{:?}", e))?;
        let parsed = Packet::parse(&src_bytes).map_err(|e| format!("{:?}", e))?;
        let parsed_name = parsed.answers[0].name.clone();
        let label_vec: Vec<simple_dns::Label> = base.get_labels().to_vec();
        let n: Name = match how {
            0 => base.clone(),
            1 => Name::new_unchecked(&full),
            2 => Name::new_with_labels(&label_vec),
            3 => Name::from(&label_vec[..]),
            4 => base.without(&sfx).ok_or("without gave None")?,
            5 => base.without(&sfx).ok_or("without gave None")?.into_owned(),
            6 => parsed_name.clone().into_owned(),
            _ => parsed_name.without(&sfx).ok_or("without gave None")?.into_owned(),
        };
        let wire_len: usize = n.get_labels().iter().map(|l| l.len() + 1).sum::<usize>() + 1;
        let mut pk = Packet::new_reply(idx as u16);
        let owner = Name::new("o.example").map_err(|e| format!("{:?}", e))?;
        match idx / 8 % 5 {
            0 => pk.answers.push(ResourceRecord::new(owner.clone(), CLASS::IN, 3, RData::PTR(PTR(n.clone())))),
            1 => pk.answers.push(ResourceRecord::new(owner.clone(), CLASS::IN, 3, RData::MX(MX { preference: 7, exchange: n.clone() }))),
            2 => pk.answers.push(ResourceRecord::new(owner.clone(), CLASS::IN, 3, RData::SRV(SRV { priority: 1, weight: 2, port: 3, target: n.clone() }))),
            3 => pk.answers.push(ResourceRecord::new(owner.clone(), CLASS::IN, 3, RData::SOA(SOA { mname: n.clone(), rname: n.clone(), serial: 1, refresh: 2, retry: 3, expire: 4, minimum: 5 }))),
            _ => pk.answers.push(ResourceRecord::new(n.clone(), CLASS::IN, 3, RData::A(A { address: 1 }))),
        }
        pk.answers.push(ResourceRecord::new(owner, CLASS::IN, 9, RData::A(A { address: 0x0A0B0C0D })));
        let mut outs = Vec::new();
        outs.push(("build_bytes_vec".to_string(), pk.build_bytes_vec().map_err(|e| format!("build_bytes_vec: {:?}", e))?));
        outs.push(("build_bytes_vec_compressed".to_string(), pk.build_bytes_vec_compressed().map_err(|e| format!("build_bytes_vec_compressed: {:?}", e))?));
        let mut v = Vec::new();
        pk.write_to(&mut v).map_err(|e| format!("write_to: {:?}", e))?;
        outs.push(("write_to/vec".to_string(), v));
        let mut c = Cursor::new(Vec::new());
        pk.write_compressed_to(&mut c).map_err(|e| format!("write_compressed_to: {:?}", e))?;
        outs.push(("write_compressed_to/cursor_vec".to_string(), c.into_inner()));
        Ok((wire_len, outs))
    });
    let outs = match built {
        Err(pn) => return ctx.panic_violation("building a packet with a derived name", &pn, case()),
        Ok(Err(e)) => return ctx.violation("rdlength", &format!("build-error:derived-name:{}", hows[how]), format!("name made by {}: {}", hows[how], e), case()),
        Ok(Ok((_, o))) => o,
    };
    for (what, out) in outs {
        let problem = match decode_typed(&out) {
            Err(e) => Some(format!("the independent decoder fails: {:?}", e)),
            Ok(t) => {
                let a = &t.env.secs[0];
                if t.env.end != out.len() { Some(format!("{} bytes follow the last entry", out.len() - t.env.end)) }
                else if a.len() != 2 || a[1].rtype != 1 || a[1].rdlen != 4 || out[a[1].rd_off..a[1].rd_off + 4] != [0x0A, 0x0B, 0x0C, 0x0D] || a[1].ttl != 9 { Some("the record after the one with the derived name is not the A record that was written".to_string()) }
                else { None }
            }
        };
        let lib_ok = monitor::guard(|| Packet::parse(&out).map(|p| p.answers.len()).ok()).ok().flatten() == Some(2);
        match problem {
            Some(pr) => ctx.violation("rdlength", &format!("framing:{}:derived-name:{}", what, hows[how]), format!("name made by {}, written by {}: {}", hows[how], what, pr), json!({"family": "derived-names", "idx": idx, "how": hows[how], "bytes": hex(&out[..out.len().min(500)])})),
            None if !lib_ok => ctx.violation("rdlength", &format!("parse-own-output:{}:derived-name:{}", what, hows[how]), format!("name made by {}, written by {}: the library does not read its own output back as two records", hows[how], what), json!({"family": "derived-names", "idx": idx, "how": hows[how], "bytes": hex(&out[..out.len().min(500)])})),
            None => ctx.count("derived_name_outputs_well_framed"),
        }
    }
}

pub fn run(ctx: &mut Ctx) {
    if let Some(tape) = ctx.tape_case() {
        // replay of a case found by the coverage-guided `model` target: the tape drives every generator decision
        super::model_case("C04", ctx, &tape);
        return;
    }
    let tier = ctx.tier;
    if ctx.family_active("txt-ctor") {
        let nt = if ctx.slow_tool { 60 } else { tier.pick(4_000u64, 200_000u64) };
        for idx in 0..nt {
            if ctx.take("txt-ctor", idx) {
                txt_ctor_case(ctx, idx, false);
            }
        }
    }
    if ctx.family_active("derived-names") {
        let nt = if ctx.slow_tool { 40 } else { tier.pick(4_000u64, 200_000u64) };
        for idx in 0..nt {
            if ctx.take("derived-names", idx) {
                derived_names_case(ctx, idx);
            }
        }
    }
    let n = if ctx.slow_tool { 10 } else { tier.pick(12_000u64, 600_000u64) };
    for idx in 0..n {
        if !ctx.take("matrix", idx) {
            continue;
        }
        if ctx.stop("matrix") {
            break;
        }
        let mut r = ctx.rng("matrix", idx);
        let cfg = if idx % 2 == 0 { super::c03::share_cfg() } else { Cfg { max_entries: 3, ..Default::default() } };
        let mut g = Gen::new(&mut r, cfg);
        let p = if idx % 5 == 0 {
            // single record of each type in turn: per-type length functions
            let t = TYPED_CODES[(idx / 5) as usize % 40];
            let mut p = PktM { id: idx as u16, ..Default::default() };
            if t == 41 {
                p.edns = Some(g.edns());
            } else {
                let rec = g.record_of(t);
                p.secs[(idx % 3) as usize].push(rec);
            }
            p
        } else {
            g.packet()
        };
        ctx.sample("matrix", || pkt_json(&p));
        check_one(ctx, "matrix", idx, &p);
    }
    // records holding OPT data inside the sections (pushed by hand, or left behind by the parser when a message carried several),
    // with and without EDNS data set on the packet as well: every one of them is an entry that is written and counted
    for idx in 0..if ctx.slow_tool { 4 } else { tier.pick(600u64, 30_000u64) } {
        if !ctx.take("opt-in-section", idx) {
            continue;
        }
        let mut r = ctx.rng("opt-in-section", idx);
        let mut g = Gen::new(&mut r, Cfg { max_entries: 2, ..Default::default() });
        let mut p = g.packet();
        p.edns = if idx % 4 == 0 { None } else { Some(g.edns()) };
        for k in 0..1 + idx % 2 {
            let opts = if (idx + k) % 3 == 0 { vec![] } else { let n = g.r.usize(0, 9); vec![(g.r.int(16) as u16, g.r.bytes(n))] };
            let rec = RecSem { name: vec![], rtype: 41, class: 1, flush: false, ttl: g.r.int(32) as u32, rd: Rd::Fields(vec![F::Pairs(opts)]) };
            let sec = if (idx / 2 + k) % 5 == 0 { 0 } else { 2 };
            let at = g.r.usize(0, p.secs[sec].len());
            p.secs[sec].insert(at, rec);
        }
        ctx.add("packets_with_opt_records_inside_sections", 1);
        check_one(ctx, "opt-in-section", idx, &p);
    }
    // an extended response code (BADVERS = 16) on a packet that carries no EDNS data: the header can only hold the low
    // nibble, and whatever the library does about the rest, the counts must still describe exactly what was written
    for idx in 0..if ctx.slow_tool { 4 } else { tier.pick(400u64, 20_000u64) } {
        if !ctx.take("ext-rcode-no-opt", idx) {
            continue;
        }
        let mut r = ctx.rng("ext-rcode-no-opt", idx);
        let mut g = Gen::new(&mut r, Cfg { max_entries: 3, edns: 0, ..Default::default() });
        let mut p = g.packet();
        p.edns = None;
        p.rcode = 16;
        if idx % 4 == 0 {
            p.secs[2].clear();
        }
        ctx.add("packets_with_extended_rcode_and_no_edns_data", 1);
        check_one(ctx, "ext-rcode-no-opt", idx, &p);
    }
    if !ctx.slow_tool {
        // sections with more than 255 entries (both bytes of the counts in use)
        for (i, n) in [256usize, 257, 300, 1000].iter().enumerate() {
            for sec in 0..4usize {
                let idx = (i * 4 + sec) as u64;
                if ctx.take("many", idx) {
                    let p = super::c02::many_entries(*n, sec, idx);
                    ctx.add("packets_with_more_than_255_entries_in_a_section", 1);
                    check_one(ctx, "many", idx, &p);
                }
            }
        }
        // long messages (sparse capacities)
        for idx in 0..tier.pick(80u64, 3000u64) {
            if !ctx.take("long", idx) {
                continue;
            }
            if ctx.stop("long") {
                break;
            }
            let mut r = ctx.rng("long", idx);
            let p = super::c03::window_packet(&mut r, 16380 + (idx as usize % 10));
            check_one(ctx, "long", idx, &p);
        }
    }
}
