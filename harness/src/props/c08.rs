//! C08 – header bits are read and written per RFC 1035 section 4.1.1.

use crate::bridge::{self, ALL_FLAGS};
use crate::ctx::*;
use crate::model::*;
use crate::monitor;
use crate::refdns::hex;
use serde_json::json;
use simple_dns::{header_buffer, Packet, PacketFlag};

pub fn meta() -> Meta {
    Meta {
        rule: "exhaustive: all 65536 flag words x ids {0,1,0x1234,0xffff} as 12-byte headers through Packet::parse (Z set => Err; else id, each of \
the 7 flags, opcode and rcode equal an 8-line bit model), through the eight header_buffer peeks (also with counts {0,1,0xff,0xff00,0xffff} in each \
slot) and through re-serialisation (same id, zero counts, identical flag word when opcode and rcode are named, identical outside those fields \
otherwise); every non-Z flag word again in a message that also carries an OPT record with arbitrary VERSION / flags and extended RCODE 0 (same fields, same re-serialised word); all 128x128 pairs of flag sets x named opcodes x rcodes for set_flags/remove_flags/has_flags (incl. multi-flag queries); every named \
opcode x rcode x 128 subsets on the build side via new_query/new_reply/opcode_mut/rcode_mut, and into_reply() of each (id and opcode kept, QR set); section counts for 0..3 entries per section. \
non-trivial = every case (each exercises a distinct header); distinct = hash of the case descriptor",
        assumptions: &["the bit model is written from RFC 1035 4.1.1 / RFC 2535 (AD, CD)"],
        exhaustive: true,
        min_distinct: 60_000,
    }
}

fn model_opcode(w: u16) -> u16 {
    let o = (w >> 11) & 0xF;
    if NAMED_OPCODES.contains(&o) { o } else { OPCODE_RESERVED }
}
fn model_rcode_low(w: u16) -> u16 {
    let r = w & 0xF;
    if r <= 10 { r } else { RCODE_RESERVED }
}

fn hdr(id: u16, w: u16, counts: [u16; 4]) -> [u8; 12] {
    let mut b = [0u8; 12];
    b[0..2].copy_from_slice(&id.to_be_bytes());
    b[2..4].copy_from_slice(&w.to_be_bytes());
    for i in 0..4 {
        b[4 + 2 * i..6 + 2 * i].copy_from_slice(&counts[i].to_be_bytes());
    }
    b
}

fn check_word(ctx: &mut Ctx, idx: u64, id: u16, w: u16) {
    let b = hdr(id, w, [0; 4]);
    let case = || json!({"family": "word", "idx": idx, "header": hex(&b)});
    ctx.case(true, idx);
    let r = monitor::guard(|| {
        Packet::parse(&b).map(|p| {
            let out = p.build_bytes_vec();
            (p.id(), bridge::obs_flags(&p), bridge::obs_opcode(p.opcode()), bridge::obs_rcode(p.rcode()), out)
        })
    });
    let z = w & 0x0040 != 0;
    match r {
        Err(pn) => ctx.panic_violation("Packet::parse(header)", &pn, case()),
        Ok(Err(e)) => {
            if !z {
                ctx.violation("parse-header", "valid-header-rejected", format!("header with flag word {:#06x} rejected: {:?}", w, e), case());
            } else {
                ctx.count("z_bit_rejected");
            }
        }
        Ok(Ok((pid, flags, op, rc, out))) => {
            if z {
                ctx.violation("z-rejected", "z-bit-accepted", format!("flag word {:#06x} has the reserved Z bit set but was accepted", w), case());
                return;
            }
            if pid != id {
                ctx.violation("parse-header", "id-differs", format!("id {} read as {}", id, pid), case());
            }
            if flags != w & FLAG_MASK {
                ctx.violation("parse-header", "flags-differ", format!("flag word {:#06x}: library reports flag bits {:#06x}, model {:#06x}", w, flags, w & FLAG_MASK), case());
            }
            if op != model_opcode(w) {
                ctx.violation("parse-header", "opcode-differs", format!("flag word {:#06x}: opcode {} vs model {}", w, op, model_opcode(w)), case());
            }
            if rc != model_rcode_low(w) {
                ctx.violation("parse-header", "rcode-differs", format!("flag word {:#06x}: rcode {} vs model {}", w, rc, model_rcode_low(w)), case());
            }
            match out {
                Err(e) => ctx.violation("reserialise", "reserialise-failed", format!("{:?}", e), case()),
                Ok(o) => {
                    let named = model_opcode(w) != OPCODE_RESERVED && model_rcode_low(w) != RCODE_RESERVED;
                    let ow = if o.len() >= 4 { u16::from_be_bytes([o[2], o[3]]) } else { 0 };
                    let mask = if named { 0xFFFF } else {
                        0xFFFF & !(if model_opcode(w) == OPCODE_RESERVED { 0x7800 } else { 0 }) & !(if model_rcode_low(w) == RCODE_RESERVED { 0x000F } else { 0 })
                    };
                    if o.len() != 12 || o[0..2] != b[0..2] || o[4..12] != [0u8; 8] || (ow & mask) != (w & mask) {
                        ctx.violation("reserialise", if named { "reserialised-word-differs" } else { "reserialised-word-differs-outside-unnamed-fields" },
                            format!("header {} re-serialised as {}", hex(&b), hex(&o)), case());
                    } else {
                        ctx.count("reserialised_identical_where_required");
                    }
                }
            }
        }
    }
    check_peeks(ctx, idx, id, w, [0; 4]);
    // a parsed packet is then edited: opcode_mut / rcode_mut / set_flags / remove_flags / set_id must change only their own bits
    if !z {
        let new_op = NAMED_OPCODES[((w >> 3) % 5) as usize];
        let new_rc = NAMED_RCODES_LOW[(w % 11) as usize];
        let add = FLAG_MASK & (w.rotate_left(5) ^ 0x5A5A);
        let del = FLAG_MASK & (w.rotate_left(9) ^ 0x3C3C);
        let new_id = id ^ w.rotate_left(3) ^ 0x0F0F;
        // which of the five edits are made: all of them when the parsed opcode or response code has no name (what such a field
        // is written back as is then not pinned down), any subset otherwise -- an edit must take effect on its own as well
        let (old_op, old_rc) = ((w >> 11) & 0xF, w & 0xF);
        let named = NAMED_OPCODES.contains(&old_op) && NAMED_RCODES_LOW.contains(&old_rc);
        let em: u32 = if named { ((w as u32 ^ ((id as u32) << 3)).wrapping_mul(2_654_435_761) >> 27) & 31 } else { 31 };
        let (new_op, new_rc) = (if em & 1 != 0 { new_op } else { old_op }, if em & 2 != 0 { new_rc } else { old_rc });
        let (add, del) = (if em & 4 != 0 { add } else { 0 }, if em & 8 != 0 { del } else { 0 });
        let new_id = if em & 16 != 0 { new_id } else { id };
        ctx.add(&format!("header_edits_applied_{}", em.count_ones()), 1);
        let r = monitor::guard(|| {
            Packet::parse(&b).ok().and_then(|mut p| {
                if em & 4 != 0 && w & 0x0100 != 0 { p.set_flags(bridge::lib_flags(add)); }
                if em & 1 != 0 { *p.opcode_mut() = bridge::lib_opcode(new_op).unwrap(); }
                if em & 2 != 0 { *p.rcode_mut() = bridge::lib_rcode(new_rc).unwrap(); }
                if em & 4 != 0 && w & 0x0100 == 0 { p.set_flags(bridge::lib_flags(add)); }
                if em & 8 != 0 { p.remove_flags(bridge::lib_flags(del)); }
                if em & 16 != 0 { p.set_id(new_id); }
                p.build_bytes_vec().ok().filter(|o| o.len() == 12 && o[0..2] == new_id.to_be_bytes() && p.id() == new_id && o[4..12] == [0u8; 8])
                    .map(|o| (u16::from_be_bytes([o[2], o[3]]), bridge::obs_flags(&p), bridge::obs_opcode(p.opcode()), bridge::obs_rcode(p.rcode())))
            })
        });
        let want_flags = ((w & FLAG_MASK) | add) & !del;
        let want_word = want_flags | (new_op << 11) | new_rc;
        match r {
            Err(pn) => ctx.panic_violation("editing a parsed header", &pn, case()),
            Ok(None) => ctx.violation("edit-parsed-header", "edit-parsed-header-failed", format!("parse or build failed, or set_id({:#06x}) is not what the header carries", new_id), case()),
            Ok(Some((word, f, o, rc))) => {
                if word != want_word || f != want_flags || o != new_op || rc != new_rc {
                    ctx.violation("edit-parsed-header", "edited-parsed-header-differs",
                        format!("parsed flag word {:#06x}, then opcode:={} rcode:={} set {:#06x} remove {:#06x}: serialised {:#06x} (expected {:#06x}), accessors flags {:#06x} opcode {} rcode {}", w, new_op, new_rc, add, del, word, want_word, f, o, rc), case());
                } else {
                    ctx.count("edited_parsed_headers_agree");
                }
            }
        }
    }
}

fn check_peeks(ctx: &mut Ctx, idx: u64, id: u16, w: u16, counts: [u16; 4]) {
    let b = hdr(id, w, counts);
    let case = || json!({"family": "word", "idx": idx, "header": hex(&b)});
    let r = monitor::guard(|| {
        let mut flags = 0u16;
        for (pf, m) in ALL_FLAGS {
            if header_buffer::has_flags(&b, pf).unwrap_or(false) {
                flags |= m;
            }
        }
        (
            header_buffer::id(&b).ok(),
            flags,
            header_buffer::opcode(&b).ok().map(bridge::obs_opcode),
            header_buffer::rcode(&b).ok().map(bridge::obs_rcode),
            [header_buffer::questions(&b).ok(), header_buffer::answers(&b).ok(), header_buffer::name_servers(&b).ok(), header_buffer::additional_records(&b).ok()],
        )
    });
    match r {
        Err(pn) => ctx.panic_violation("header_buffer peeks", &pn, case()),
        Ok((pid, flags, op, rc, cs)) => {
            let want_c = [Some(counts[0]), Some(counts[1]), Some(counts[2]), Some(counts[3])];
            if pid != Some(id) || flags != w & FLAG_MASK || op != Some(model_opcode(w)) || rc != Some(model_rcode_low(w)) || cs != want_c {
                let which = if pid != Some(id) { "id" } else if flags != w & FLAG_MASK { "flags" } else if op != Some(model_opcode(w)) { "opcode" } else if rc != Some(model_rcode_low(w)) { "rcode" } else { "counts" };
                ctx.violation("peek-header", &format!("peek-{}-differs", which),
                    format!("header {}: peeks report id {:?} flags {:#06x} opcode {:?} rcode {:?} counts {:?}", hex(&b), pid, flags, op, rc, cs), case());
            } else {
                ctx.count("peeks_agree");
            }
        }
    }
}

pub fn run(ctx: &mut Ctx) {
    // ---- all flag words ---------------------------------------------------------------------
    if ctx.family_active("word") {
        let ids = [0u16, 1, 0x1234, 0xFFFF];
        for w in 0..=0xFFFFu32 {
            for (ii, id) in ids.iter().enumerate() {
                let idx = (w as u64) * 4 + ii as u64;
                if !ctx.take("word", idx) {
                    continue;
                }
                check_word(ctx, idx, *id, w as u16);
            }
            // counts in each slot (peeks only; parse would need entries)
            if ctx.take("word", (w as u64) * 4) {
                let cvals = [1u16, 0x00FF, 0xFF00, 0xFFFF];
                let slot = (w % 4) as usize;
                let mut c = [0u16; 4];
                c[slot] = cvals[(w as usize / 4) % 4];
                c[(slot + 1) % 4] = cvals[(w as usize / 16) % 4];
                check_peeks(ctx, (w as u64) * 4, 0xBEEF, w as u16, c);
            }
        }
        ctx.sample("word", || json!({"flag_words": 65536, "ids": ids}));
    }

    // ---- set/remove/has algebra ----------------------------------------------------------------
    if ctx.family_active("algebra") {
        let subset = |k: u16| -> u16 {
            let mut f = 0;
            for (bit, (_, m)) in ALL_FLAGS.iter().enumerate() {
                if k >> bit & 1 == 1 {
                    f |= m;
                }
            }
            f
        };
        for a in 0..128u16 {
            for b in 0..128u16 {
                let idx = a as u64 * 128 + b as u64;
                if !ctx.take("algebra", idx) {
                    continue;
                }
                let (fa, fb) = (subset(a), subset(b));
                let op = NAMED_OPCODES[(idx % 5) as usize];
                let rc = NAMED_RCODES_LOW[(idx % 11) as usize];
                let case = || json!({"family": "algebra", "idx": idx, "A": format!("{:#06x}", fa), "B": format!("{:#06x}", fb), "opcode": op, "rcode": rc});
                ctx.case(true, 0xA16E_0000_0000 ^ idx);
                let r = monitor::guard(|| {
                    let mk = || {
                        let mut p = Packet::new_query(7);
                        *p.opcode_mut() = bridge::lib_opcode(op).unwrap();
                        *p.rcode_mut() = bridge::lib_rcode(rc).unwrap();
                        p.set_flags(bridge::lib_flags(fa));
                        p
                    };
                    let mut s = mk();
                    s.set_flags(bridge::lib_flags(fb));
                    let mut r = mk();
                    r.remove_flags(bridge::lib_flags(fb));
                    let multi = s.has_flags(bridge::lib_flags(fa | fb)) && (fa | fb == fa || !mk().has_flags(bridge::lib_flags(fa | fb)));
                    let word = |p: &Packet| p.build_bytes_vec().ok().map(|o| u16::from_be_bytes([o[2], o[3]]));
                    (
                        bridge::obs_flags(&s), bridge::obs_opcode(s.opcode()), bridge::obs_rcode(s.rcode()), word(&s),
                        bridge::obs_flags(&r), bridge::obs_opcode(r.opcode()), bridge::obs_rcode(r.rcode()), word(&r),
                        multi,
                    )
                });
                match r {
                    Err(pn) => ctx.panic_violation("set_flags/remove_flags", &pn, case()),
                    Ok((sf, so, sr, sw, rf, ro, rr, rw, multi)) => {
                        let base = (op << 11) | rc;
                        let ok = sf == fa | fb && so == op && sr == rc && sw == Some(fa | fb | base)
                            && rf == fa & !fb && ro == op && rr == rc && rw == Some((fa & !fb) | base) && multi;
                        if !ok {
                            let which = if sf != fa | fb || sw != Some(fa | fb | base) { "set_flags" } else if rf != fa & !fb || rw != Some((fa & !fb) | base) { "remove_flags" } else if !multi { "has_flags-multi" } else { "opcode-rcode-disturbed" };
                            ctx.violation("flag-algebra", &format!("flag-algebra:{}", which),
                                format!("A={:#06x} B={:#06x}: after set: flags {:#06x} word {:?}; after remove: flags {:#06x} word {:?}; opcode {}/{} rcode {}/{}", fa, fb, sf, sw, rf, rw, so, ro, sr, rr), case());
                        } else {
                            ctx.count("flag_pairs_agree");
                        }
                    }
                }
            }
        }
        ctx.sample("algebra", || json!({"pairs": 16384}));
    }

    // ---- every header word in a message that also carries an OPT pseudo-record ------------------------------
    // The header's own fields must read the same whatever VERSION and flags the OPT record holds (extended RCODE 0, so that
    // the response code is the header's nibble), and a re-serialised message carries the same flag word.
    if ctx.family_active("word-edns") {
        for w in 0..=65535u16 {
            let idx = w as u64;
            if w & 0x0040 != 0 || !ctx.take("word-edns", idx) {
                continue;
            }
            let version = (w.wrapping_mul(37).wrapping_add(11) >> 3) as u8;
            let eflags = w.rotate_left(7) ^ 0x8001;
            let id = w ^ 0x55AA;
            let mut b = hdr(id, w, [0, 0, 0, 1]).to_vec();
            b.extend_from_slice(&[0, 0, 41, 0x04, 0xD0, 0, version]);
            b.extend_from_slice(&eflags.to_be_bytes());
            b.extend_from_slice(&[0, 0]);
            let case = || json!({"family": "word-edns", "idx": idx, "bytes": hex(&b)});
            ctx.case(true, 0xED_0000_0000 ^ idx);
            let r = monitor::guard(|| {
                Packet::parse(&b).map(|p| {
                    let out = p.build_bytes_vec();
                    (p.id(), bridge::obs_flags(&p), bridge::obs_opcode(p.opcode()), bridge::obs_rcode(p.rcode()), p.opt().map(|o| o.version), out)
                })
            });
            match r {
                Err(pn) => ctx.panic_violation("Packet::parse(header + OPT)", &pn, case()),
                Ok(Err(e)) => ctx.violation("parse-header", "valid-header-with-opt-rejected", format!("flag word {:#06x} with an OPT record (version {}) rejected: {:?}", w, version, e), case()),
                Ok(Ok((pid, flags, op, rc, ver, out))) => {
                    let mut bad = Vec::new();
                    if pid != id { bad.push(format!("id {} read as {}", id, pid)); }
                    if flags != w & FLAG_MASK { bad.push(format!("flag bits {:#06x} vs model {:#06x}", flags, w & FLAG_MASK)); }
                    if op != model_opcode(w) { bad.push(format!("opcode {} vs model {}", op, model_opcode(w))); }
                    if rc != model_rcode_low(w) { bad.push(format!("rcode {} vs model {} (extended RCODE is 0, VERSION {})", rc, model_rcode_low(w), version)); }
                    if ver != Some(version) { bad.push(format!("EDNS version {:?} vs {}", ver, version)); }
                    let named = model_opcode(w) != OPCODE_RESERVED && model_rcode_low(w) != RCODE_RESERVED;
                    match &out {
                        Ok(o) if o.len() >= 12 => {
                            let ow = u16::from_be_bytes([o[2], o[3]]);
                            if named && ow != w { bad.push(format!("re-serialised flag word {:#06x} vs {:#06x}", ow, w)); }
                            if o[0..2] != b[0..2] || o[4..12] != b[4..12] { bad.push("re-serialised id or counts differ".to_string()); }
                        }
                        other => bad.push(format!("re-serialisation failed: {:?}", other.as_ref().map(|o| o.len()))),
                    }
                    if bad.is_empty() {
                        ctx.count("headers_with_opt_agree");
                    } else {
                        ctx.violation("parse-header", "header-with-opt-differs", format!("flag word {:#06x} in a message with an OPT record: {}", w, bad.join("; ")), case());
                    }
                }
            }
        }
        ctx.sample("word-edns", || json!({"words": 32768, "versions": "all 0..255", "opt_flags": "derived from the word"}));
    }

    // ---- build side: named opcode x rcode x subsets, new_query / new_reply -------------------------
    if ctx.family_active("build") {
        let mut idx = 0u64;
        for &op in &NAMED_OPCODES {
            for rc in NAMED_RCODES_LOW.iter().copied().chain([16u16]) {
                for k in 0..128u16 {
                    for reply in [false, true] {
                        idx += 1;
                        if !ctx.take("build", idx) {
                            continue;
                        }
                        let mut f = 0u16;
                        for (bit, (_, m)) in ALL_FLAGS.iter().enumerate() {
                            if k >> bit & 1 == 1 {
                                f |= m;
                            }
                        }
                        let id = (idx as u16).wrapping_mul(40503);
                        let case = || json!({"family": "build", "idx": idx, "opcode": op, "rcode": rc, "flags": format!("{:#06x}", f), "reply": reply});
                        ctx.case(true, 0xB01D_0000_0000 ^ idx);
                        let r = monitor::guard(|| {
                            let mut p = if reply { Packet::new_reply(id) } else { Packet::new_query(id) };
                            *p.opcode_mut() = bridge::lib_opcode(op).unwrap();
                            *p.rcode_mut() = bridge::lib_rcode(rc).unwrap();
                            p.set_flags(bridge::lib_flags(f));
                            // the same packet turned into a reply: the id and the opcode are the query's, QR is set
                            let as_reply = p.clone().into_reply().build_bytes_vec().ok();
                            if let Some(b) = &as_reply {
                                if b.len() != 12 || b[..2] != id.to_be_bytes() || b[2] & 0x80 == 0 || (b[2] >> 3) & 0xF != op as u8 || b[4..12] != [0u8; 8] {
                                    panic!("VERIF-ORACLE into_reply gives {}", hex(b));
                                }
                            } else {
                                panic!("VERIF-ORACLE into_reply cannot be built");
                            }
                            p.build_bytes_vec()
                        });
                        // BADVERS (16) needs EDNS for its upper bits; the header only ever carries the low four
                        let want = hdr(id, f | if reply { 0x8000 } else { 0 } | (op << 11) | (rc & 0xF), [0; 4]);
                        match r {
                            Err(pn) if pn.message.contains("VERIF-ORACLE") => ctx.violation("build-header", "into-reply-header-differs", format!("{} (want id {:#06x}, QR set, opcode {})", pn.message, id, op), case()),
                            Err(pn) => ctx.panic_violation("build header", &pn, case()),
                            Ok(Err(e)) => ctx.violation("build-header", "build-header-failed", format!("{:?}", e), case()),
                            Ok(Ok(o)) => {
                                if o[..] != want[..] {
                                    ctx.violation("build-header", "built-header-differs", format!("built {} expected {}", hex(&o), hex(&want)), case());
                                } else {
                                    ctx.count("built_headers_agree");
                                }
                            }
                        }
                    }
                }
            }
        }
    }

    // ---- counts -------------------------------------------------------------------------------------
    if ctx.family_active("counts") {
        for idx in 0..256u64 {
            if !ctx.take("counts", idx) {
                continue;
            }
            let n = [(idx & 3) as usize, (idx >> 2 & 3) as usize, (idx >> 4 & 3) as usize, (idx >> 6 & 3) as usize];
            let mut p = PktM { id: idx as u16, ..Default::default() };
            for _ in 0..n[0] {
                p.qs.push(QSem { name: vec![b"q".to_vec()], qtype: 1, qclass: 1, unicast: false });
            }
            for s in 0..3 {
                for j in 0..n[s + 1] {
                    p.secs[s].push(RecSem { name: vec![b"r".to_vec()], rtype: 1, class: 1, flush: false, ttl: j as u32, rd: crate::refdns::Rd::Fields(vec![crate::refdns::F::Int(j as u64)]) });
                }
            }
            ctx.case(true, 0xC0_0000_0000 ^ idx);
            let lib = bridge::to_lib(&p).unwrap();
            for comp in [false, true] {
                let out = if comp { lib.build_bytes_vec_compressed() } else { lib.build_bytes_vec() };
                let Ok(o) = out else { continue };
                let got = [header_buffer::questions(&o).ok(), header_buffer::answers(&o).ok(), header_buffer::name_servers(&o).ok(), header_buffer::additional_records(&o).ok()];
                let want = [Some(n[0] as u16), Some(n[1] as u16), Some(n[2] as u16), Some(n[3] as u16)];
                if got != want {
                    ctx.violation("counts", "header-counts-differ", format!("sections {:?} but header counts {:?}", n, got), json!({"family": "counts", "idx": idx}));
                } else {
                    ctx.count("count_headers_agree");
                }
            }
        }
    }
}
