//! C13 – mDNS replies contain exactly the matching records.

use crate::bridge;
use crate::ctx::*;
use crate::model::*;
use crate::monitor;
use crate::refdns::*;
use crate::rng::{fnv, Rng};
use serde_json::json;
use simple_dns::{Packet, PacketFlag, ResourceRecord};
use simple_mdns::verif::{build_reply, ResourceRecordManager};

pub fn meta() -> Meta {
    Meta {
        rule: "reference store model (identity = owner, class, RDATA; kind authoritative|cached) and reply model (sound: every answer is an authoritative record \
whose owner equals or is a label-wise strict subdomain of some question name (ASCII case-insensitive) and matches its type/class; complete: every authoritative \
record whose owner equals a question name byte-exactly and matches is present; additional: only stored A/AAAA records owned by the target of an included SRV; id, \
RESPONSE flag, unicast bit; None iff nothing matches). Universe U0 (exhaustive): 6 owner names that collide under label concatenation x {A, TXT, SRV} x {authoritative, \
cached}; all stores of <= 3 (quick) / <= 4 (thorough) records x all queries of <= 2 questions over 6 names x {A,SRV,TXT,ANY} x {IN,ANY}. Universe U1 (random): histories \
of add-authoritative/add-cached/remove/clear over colliding label alphabets, 9 record types, classes IN/CH, QTYPE incl. ANY/MAILB, each followed by queries (one in five carrying records in its own sections). \
Live family (sampled): 8 / 80 real services - sync and tokio SimpleMdnsResponder holding generated records, and sync and tokio ServiceDiscovery answering for their own instance (registered = PTR + InstanceInformation::into_records, \
TXT strings compared as a set) - under names private to the process; 30 / 60 queries each go to the mDNS \
group through real sockets; the reply datagram (unicast replies on the sending socket, multicast replies on a witness socket joined to the group) is parsed and judged by the same reply model, \
including how it was delivered; an expected reply that does not come after 3 transmissions while the marker query is answered is a violation, otherwise inconclusive. \
non-trivial = (store, query) with a non-empty store and at least one question; distinct = hash of (store, query)",
        assumptions: &["set comparison (reply order comes from hash maps)", "TTLs are not compared", "a record both registered and received stays authoritative (the model follows C20's statement); cached copies with the cache-flush bit are not generated here (expiry is C20's subject)"],
        exhaustive: true,
        min_distinct: 100_000,
    }
}

#[derive(Clone, Debug, PartialEq, Eq, Hash)]
pub struct Ident {
    pub name: NameM,
    pub class: u16,
    pub rtype: u16,
    pub rd: Rd,
}

pub fn ident_of(r: &RecSem) -> Ident {
    Ident { name: r.name.clone(), class: r.class, rtype: r.rtype, rd: r.rd.clone() }
}

fn eq_ci(a: &NameM, b: &NameM) -> bool {
    a.len() == b.len() && a.iter().zip(b.iter()).all(|(x, y)| x.eq_ignore_ascii_case(y))
}
/// a == b or a is a strict label-wise subdomain of b (ASCII case-insensitive): the weaker reading
fn under_ci(a: &NameM, b: &NameM) -> bool {
    a.len() >= b.len() && eq_ci(&a[a.len() - b.len()..].to_vec(), b)
}
fn type_match(qtype: u16, rtype: u16) -> bool {
    qtype == 255 || qtype == rtype || (qtype == 253 && matches!(rtype, 7 | 8 | 9))
}
fn class_match(qclass: u16, class: u16) -> bool {
    qclass == 255 || qclass == class
}

pub struct ModelStore {
    pub recs: Vec<(Ident, bool)>, // (identity, authoritative?)
}

pub fn judge(
    ctx: &mut Ctx,
    store: &ModelStore,
    qs: &[QSem],
    qid: u16,
    reply: Option<(PktM, bool)>,
    case: &dyn Fn() -> serde_json::Value,
) {
    let sound: Vec<&Ident> = store.recs.iter().filter(|(_, a)| *a).map(|(i, _)| i)
        .filter(|i| qs.iter().any(|q| under_ci(&i.name, &q.name) && type_match(q.qtype, i.rtype) && class_match(q.qclass, i.class))).collect();
    let complete: Vec<&Ident> = store.recs.iter().filter(|(_, a)| *a).map(|(i, _)| i)
        .filter(|i| qs.iter().any(|q| i.name == q.name && type_match(q.qtype, i.rtype) && class_match(q.qclass, i.class))).collect();
    match reply {
        None => {
            ctx.count("replies_none");
            if !complete.is_empty() {
                ctx.violation("complete", "no-reply-although-records-match",
                    format!("no reply produced although {} authoritative record(s) equal a question name and match its type/class, e.g. {} type {}", complete.len(), name_text(&complete[0].name), complete[0].rtype), case());
            }
        }
        Some((rp, unicast)) => {
            ctx.count("replies_some");
            if sound.is_empty() {
                ctx.violation("sound", "reply-although-nothing-matches", format!("a reply with {} answer(s) was produced although no authoritative record matches any question; first answer: {} type {}",
                    rp.secs[0].len(), rp.secs[0].first().map(|r| name_text(&r.name)).unwrap_or_default(), rp.secs[0].first().map(|r| r.rtype).unwrap_or(0)), case());
                return;
            }
            let answers: Vec<Ident> = rp.secs[0].iter().map(ident_of).collect();
            for a in &answers {
                if !sound.iter().any(|s| *s == a) {
                    let why = if !store.recs.iter().any(|(i, _)| i == a) { "not-in-store" }
                        else if store.recs.iter().any(|(i, auth)| i == a && !*auth) && !store.recs.iter().any(|(i, auth)| i == a && *auth) { "cached-record" }
                        else if !qs.iter().any(|q| under_ci(&a.name, &q.name)) { "owner-not-under-question-name" }
                        else { "type-or-class-mismatch" };
                    ctx.violation("sound", &format!("unsound-answer:{}", why),
                        format!("answer {} type {} class {} is not a matching authoritative record ({})", name_text(&a.name), a.rtype, a.class, why), case());
                    return;
                }
            }
            for c in &complete {
                if !answers.iter().any(|a| a == *c) {
                    ctx.violation("complete", "missing-answer",
                        format!("authoritative record {} type {} equals a question name and matches but is not in the reply", name_text(&c.name), c.rtype), case());
                    return;
                }
            }
            let srv_targets: Vec<NameM> = rp.secs[0].iter().filter(|r| r.rtype == 33).filter_map(|r| match &r.rd {
                Rd::Fields(f) => match f.get(3) { Some(F::Name(n)) => Some(n.clone()), _ => None },
                _ => None,
            }).collect();
            for ad in rp.secs[2].iter().map(ident_of) {
                let ok = (ad.rtype == 1 || ad.rtype == 28) && store.recs.iter().any(|(i, _)| *i == ad) && srv_targets.iter().any(|t| eq_ci(t, &ad.name));
                if !ok {
                    ctx.violation("additional", "bad-additional-record",
                        format!("additional record {} type {} is not a stored address record owned by the target of an included SRV (targets: {:?})",
                            name_text(&ad.name), ad.rtype, srv_targets.iter().map(name_text).collect::<Vec<_>>()), case());
                    return;
                }
                ctx.count("additional_records_checked");
            }
            if !rp.secs[1].is_empty() {
                ctx.violation("sound", "authority-section-not-empty", "reply carries name-server records".into(), case());
            }
            let want_unicast = qs.iter().any(|q| q.unicast);
            if rp.id != qid || rp.flags & 0x8000 == 0 || unicast != want_unicast {
                ctx.violation("reply-header", "reply-header", format!("reply id {} (query {}), response flag {}, unicast {} (want {})", rp.id, qid, rp.flags & 0x8000 != 0, unicast, want_unicast), case());
            }
        }
    }
}

fn query_packet<'a>(qid: u16, qs: &'a [QSem]) -> Packet<'a> {
    let mut p = Packet::new_query(qid);
    for q in qs {
        p.questions.push(bridge::lib_question(q).expect("question in domain"));
    }
    p
}

/// A query that also carries records (known answers, as RFC 6762 7.1 queries do, or anything else a querier put into
/// its sections): the reply is owed all the same.
fn query_packet_with<'a>(qid: u16, qs: &'a [QSem], carried: &[(usize, RecSem)]) -> Packet<'a> {
    let mut p = query_packet(qid, qs);
    for (sec, rec) in carried {
        let rr = bridge::lib_record(rec).expect("record in domain").into_owned();
        match sec {
            0 => p.answers.push(rr),
            1 => p.name_servers.push(rr),
            _ => p.additional_records.push(rr),
        }
    }
    p
}

fn run_query(store: &ResourceRecordManager<'static>, qid: u16, qs: &[QSem]) -> Result<Option<(PktM, bool)>, monitor::PanicRec> {
    run_query_with(store, qid, qs, &[])
}

fn run_query_with(store: &ResourceRecordManager<'static>, qid: u16, qs: &[QSem], carried: &[(usize, RecSem)]) -> Result<Option<(PktM, bool)>, monitor::PanicRec> {
    monitor::guard(|| {
        let p = query_packet_with(qid, qs, carried);
        build_reply(p, store).map(|(rp, uni)| {
            debug_assert!(rp.has_flags(PacketFlag::RESPONSE) || true);
            (bridge::observe(&rp), uni)
        })
    })
}

pub fn lib_store(recs: &[(RecSem, bool)]) -> ResourceRecordManager<'static> {
    let mut s = ResourceRecordManager::new();
    for (r, auth) in recs {
        let rr: ResourceRecord<'static> = bridge::lib_record(r).expect("record in domain").into_owned();
        if *auth {
            s.add_authoritative_resource(rr)
        } else {
            s.add_cached_resource(rr)
        }
    }
    s
}

fn n(parts: &[&str]) -> NameM {
    parts.iter().map(|p| p.as_bytes().to_vec()).collect()
}

/// U0: 6 colliding owner names x 3 RDATA shapes
pub fn u0_records() -> Vec<RecSem> {
    let names = u0_names();
    let mut v = Vec::new();
    for (i, nm) in names.iter().enumerate() {
        v.push(RecSem { name: nm.clone(), rtype: 1, class: 1, flush: false, ttl: 4500, rd: Rd::Fields(vec![F::Int(0x0A00_0000 + i as u64)]) });
        v.push(RecSem { name: nm.clone(), rtype: 16, class: 1, flush: false, ttl: 4500, rd: Rd::Fields(vec![F::List(vec![format!("n={}", i).into_bytes()])]) });
        v.push(RecSem { name: nm.clone(), rtype: 33, class: 1, flush: false, ttl: 4500, rd: Rd::Fields(vec![F::Int(0), F::Int(0), F::Int(8000 + i as u64), F::Name(names[1].clone())]) });
    }
    v
}
pub fn u0_names() -> Vec<NameM> {
    vec![n(&["foo"]), n(&["bar", "foo"]), n(&["foobar"]), n(&["x"]), n(&["_my", "x"]), n(&["_mysrv", "x"])]
}

fn u0(ctx: &mut Ctx) {
    let recs = u0_records();
    let names = u0_names();
    // 36 options: (record, kind)
    let opts: Vec<(usize, bool)> = (0..18).flat_map(|r| [(r, true), (r, false)]).collect();
    let maxk = if ctx.slow_tool { 1 } else { ctx.tier.pick(3usize, 4usize) };
    // all single questions
    let mut qsingle: Vec<QSem> = Vec::new();
    for nm in &names {
        for qt in [1u16, 33, 16, 255] {
            for qc in [1u16, 255] {
                qsingle.push(QSem { name: nm.clone(), qtype: qt, qclass: qc, unicast: (qt + qc) % 2 == 0 });
            }
        }
    }
    // enumerate subsets of size <= maxk in a canonical order; index = running counter
    let mut idx = 0u64;
    let mut stack: Vec<usize> = Vec::new();
    fn rec_enum(start: usize, k: usize, maxk: usize, nopts: usize, stack: &mut Vec<usize>, f: &mut dyn FnMut(&[usize])) {
        f(stack);
        if k == maxk {
            return;
        }
        for i in start..nopts {
            stack.push(i);
            rec_enum(i + 1, k + 1, maxk, nopts, stack, f);
            stack.pop();
        }
    }
    let mut stores: Vec<Vec<usize>> = Vec::new();
    rec_enum(0, 0, maxk, opts.len(), &mut stack, &mut |s| stores.push(s.to_vec()));
    ctx.add("u0_stores_total", if ctx.shard == 0 { stores.len() as u64 } else { 0 });
    for st in &stores {
        idx += 1;
        if !ctx.take("u0", idx) {
            continue;
        }
        // skip stores holding the same identity in both kinds
        let mut dup = false;
        for (a, i) in st.iter().enumerate() {
            for j in &st[a + 1..] {
                if opts[*i].0 == opts[*j].0 {
                    dup = true;
                }
            }
        }
        if dup {
            ctx.count("u0_stores_skipped_same_identity_both_kinds");
            continue;
        }
        let members: Vec<(RecSem, bool)> = st.iter().map(|o| (recs[opts[*o].0].clone(), opts[*o].1)).collect();
        let model = ModelStore { recs: members.iter().map(|(r, a)| (ident_of(r), *a)).collect() };
        let store = lib_store(&members);
        ctx.count("u0_stores");
        let sh = fnv(format!("{:?}", st).as_bytes());
        let nq = qsingle.len();
        let total_q = nq + nq * nq;
        for qi in 0..total_q {
            let qs: Vec<QSem> = if qi < nq { vec![qsingle[qi].clone()] } else {
                let k = qi - nq;
                vec![qsingle[k / nq].clone(), qsingle[k % nq].clone()]
            };
            let qid = (qi as u16).wrapping_mul(31).wrapping_add(idx as u16);
            ctx.case(!st.is_empty(), sh ^ (qi as u64).wrapping_mul(0x9E3779B97F4A7C15));
            let case = || json!({"family": "u0", "idx": idx, "store": members.iter().map(|(r, a)| format!("{} type {} {}", name_text(&r.name), r.rtype, if *a { "authoritative" } else { "cached" })).collect::<Vec<_>>(),
                "questions": qs.iter().map(|q| format!("{} qtype {} qclass {} unicast {}", name_text(&q.name), q.qtype, q.qclass, q.unicast)).collect::<Vec<_>>()});
            match run_query(&store, qid, &qs) {
                Ok(reply) => judge(ctx, &model, &qs, qid, reply, &case),
                Err(pn) => ctx.panic_violation("build_reply", &pn, case()),
            }
        }
        ctx.sample("u0", || json!({"store": members.iter().map(|(r, a)| format!("{} type {} {}", name_text(&r.name), r.rtype, if *a { "authoritative" } else { "cached" })).collect::<Vec<_>>(), "queries_per_store": total_q}));
    }
}

// labels that collide under concatenation, and labels that both start and end with another label ("aa" / "aba" for "a",
// "foofoo" for "foo": a prefix walk over concatenated labels reaches them and a textual suffix test accepts them)
const U1_LABELS: [&str; 17] = ["a", "b", "ab", "ba", "aab", "_my", "_mysrv", "foo", "bar", "foobar", "office", "printer", "officeprinter", "local", "aa", "aba", "foofoo"];

fn u1_name(r: &mut Rng) -> NameM {
    let k = r.usize(1, 3);
    (0..k).map(|_| {
        let mut l = r.pick(&U1_LABELS).as_bytes().to_vec();
        if r.chance(1, 12) {
            for b in l.iter_mut() {
                *b = b.to_ascii_uppercase()
            }
        }
        l
    }).collect()
}

fn u1_record(r: &mut Rng, names: &[NameM]) -> RecSem {
    let name = r.pick(names).clone();
    let t = *r.pick(&[1u16, 28, 33, 16, 12, 7, 8, 9, 15, 5, 2, 13, 5, 10, 65280]);
    let rd = match t {
        1 => Rd::Fields(vec![F::Int(r.below(4))]),
        28 => Rd::Fields(vec![F::Bytes({ let mut v = vec![0u8; 16]; v[15] = r.below(3) as u8; v })]),
        33 => Rd::Fields(vec![F::Int(0), F::Int(0), F::Int(r.below(3)), F::Name(r.pick(names).clone())]),
        16 => Rd::Fields(vec![F::List(vec![vec![b'k', b'=', b'0' + r.below(3) as u8]])]),
        15 => Rd::Fields(vec![F::Int(r.below(2)), F::Name(r.pick(names).clone())]),
        13 => Rd::Fields(vec![F::Bytes(vec![b'c', b'0' + r.below(2) as u8]), F::Bytes(b"os".to_vec())]),
        // opaque data: type NULL itself and a private-use type (both live in the library's NULL variant)
        10 | 65280 => Rd::Opaque(vec![0xAB, r.below(3) as u8]),
        _ => Rd::Fields(vec![F::Name(r.pick(names).clone())]),
    };
    RecSem { name, rtype: t, class: *r.pick(&[1u16, 1, 1, 3]), flush: false, ttl: 100_000, rd }
}

fn u1(ctx: &mut Ctx) {
    let nh = if ctx.slow_tool { 192 } else { ctx.tier.pick(20_000u64, 1_500_000u64) };
    for idx in 0..nh {
        if !ctx.take("u1", idx) {
            continue;
        }
        if ctx.stop("u1") {
            break;
        }
        u1_case(ctx, idx);
    }
}

pub fn u1_case(ctx: &mut Ctx, idx: u64) {
    {
        let mut r = ctx.rng("u1", idx);
        let names: Vec<NameM> = (0..r.usize(3, 7)).map(|_| u1_name(&mut r)).collect();
        let mut members: Vec<(RecSem, bool)> = Vec::new();
        let mut store = ResourceRecordManager::new();
        let steps = r.usize(5, 40);
        let mut log: Vec<String> = Vec::new();
        ctx.count("u1_histories");
        for _ in 0..steps {
            match r.below(10) {
                0..=4 => {
                    let mut rec = u1_record(&mut r, &names);
                    // sometimes re-use an identity that is already stored (same record received again / registered again)
                    if !members.is_empty() && r.chance(1, 4) {
                        rec = members[r.usize(0, members.len() - 1)].0.clone();
                        // (received again as a refresh, with the cache-flush bit, or as a goodbye with TTL 0)
                        rec.ttl = *r.pick(&[100_000u32, 4500, 120, 0, 0, 1]);
                        rec.flush = r.chance(1, 3);
                    }
                    let auth = r.chance(2, 3);
                    let id = ident_of(&rec);
                    if let Some(slot) = members.iter_mut().find(|(m, _)| ident_of(m) == id) {
                        // registered records stay authoritative whatever is received from the network about them (refresh,
                        // cache-flush copy, goodbye); a cached record that is then registered becomes authoritative. How long
                        // a cached copy lives is C20's subject: it is never part of a reply either way
                        if auth {
                            slot.1 = true;
                        }
                    } else if auth || !(rec.flush || rec.ttl <= 1) {
                        members.push((rec.clone(), auth));
                    }
                    let rr = bridge::lib_record(&rec).unwrap().into_owned();
                    log.push(format!("add-{} {} type {} class {}", if auth { "authoritative" } else { "cached" }, name_text(&rec.name), rec.rtype, rec.class));
                    if auth { store.add_authoritative_resource(rr) } else { store.add_cached_resource(rr) }
                }
                5 | 6 if r.chance(1, 3) => {
                    // removal of a record that is NOT registered (same owner with other RDATA, a colliding owner, an
                    // unrelated one): nothing may change
                    let rec = u1_record(&mut r, &names);
                    if members.iter().any(|(m, _)| ident_of(m) == ident_of(&rec)) {
                        continue;
                    }
                    let rr = bridge::lib_record(&rec).unwrap().into_owned();
                    log.push(format!("remove (not registered) {} type {}", name_text(&rec.name), rec.rtype));
                    store.remove_resource_record(&rr);
                }
                5 | 6 => {
                    if members.is_empty() {
                        continue;
                    }
                    let i = r.usize(0, members.len() - 1);
                    let (rec, _) = members.remove(i);
                    let mut rr = bridge::lib_record(&rec).unwrap().into_owned();
                    rr.ttl = r.below(5) as u32; // identity ignores the TTL
                    log.push(format!("remove {} type {}", name_text(&rec.name), rec.rtype));
                    store.remove_resource_record(&rr);
                }
                7 => {
                    if r.chance(1, 6) {
                        members.clear();
                        store.clear();
                        log.push("clear".into());
                    }
                }
                _ => {}
            }
            // 1..5 queries after each step
            let model = ModelStore { recs: members.iter().map(|(m, a)| (ident_of(m), *a)).collect() };
            let sh = fnv(format!("{:?}", model.recs).as_bytes());
            ctx.add("u1_store_states", 1);
            for _ in 0..r.usize(1, 5) {
                let nq = r.usize(1, 3);
                let qs: Vec<QSem> = (0..nq).map(|_| {
                    let name = if r.chance(3, 4) { r.pick(&names).clone() } else { u1_name(&mut r) };
                    // parent/child probes
                    let name = match r.below(6) { 0 if name.len() > 1 => name[1..].to_vec(), 1 => { let mut n2 = name.clone(); n2.insert(0, b"a".to_vec()); n2 }, _ => name };
                    QSem { name, qtype: *r.pick(&[1u16, 28, 33, 16, 12, 7, 8, 9, 15, 255, 255, 253, 5, 2, 13, 10]), qclass: *r.pick(&[1u16, 1, 3, 255]), unicast: r.chance(1, 4) }
                }).collect();
                let qid = r.int(16) as u16;
                ctx.case(!members.is_empty(), sh ^ fnv(format!("{:?}", qs).as_bytes()));
                let case = || json!({"family": "u1", "idx": idx, "history": log, "questions": qs.iter().map(|q| format!("{} qtype {} qclass {} unicast {}", name_text(&q.name), q.qtype, q.qclass, q.unicast)).collect::<Vec<_>>()});
                // one query in five carries records in its own sections (known answers and the like)
                let mut carried: Vec<(usize, RecSem)> = Vec::new();
                if r.chance(1, 5) {
                    for _ in 0..r.usize(1, 2) {
                        let rec = if !members.is_empty() && r.bool() { members[r.usize(0, members.len() - 1)].0.clone() } else { u1_record(&mut r, &names) };
                        carried.push((*r.pick(&[0usize, 0, 1, 2]), rec));
                    }
                    ctx.count("u1_queries_carrying_records");
                }
                match run_query_with(&store, qid, &qs, &carried) {
                    Ok(reply) => judge(ctx, &model, &qs, qid, reply, &case),
                    Err(pn) => ctx.panic_violation("build_reply", &pn, case()),
                }
            }
        }
        ctx.sample("u1", || json!({"history": log}));
    }
}

/// The same judgement on what the real responders put on the wire: a sync and a tokio SimpleMdnsResponder hold generated
/// records (under names private to this process), queries go to the mDNS group through real sockets, unicast replies
/// come back to the sending socket and multicast replies are picked up by a witness socket on the group.
/// TXT strings as a set (an instance's attributes come from a hash map: their order differs from call to call)
fn norm_txt(r: &mut RecSem) {
    if r.rtype == 16 {
        if let Rd::Fields(f) = &mut r.rd {
            for x in f.iter_mut() {
                if let F::List(l) = x {
                    l.sort();
                    // a TXT value without strings goes over the wire as one empty string
                    if l.is_empty() {
                        l.push(Vec::new());
                    }
                }
            }
        }
    }
}

fn live(ctx: &mut Ctx) {
    use simple_mdns::{async_discovery, sync_discovery};
    use std::net::{SocketAddr, UdpSocket};
    use std::time::{Duration, Instant};
    let group: SocketAddr = "224.0.0.251:5353".parse().unwrap();
    let Ok(sock) = UdpSocket::bind("0.0.0.0:0") else {
        ctx.inconclusive.push("live responders: cannot bind a UDP socket".into());
        return;
    };
    let _ = sock.set_read_timeout(Some(Duration::from_millis(15)));
    let _ = sock.set_multicast_loop_v4(true);
    let tap = super::c15::open_tap();
    if tap.is_none() {
        ctx.notes.push("live responders: no witness socket on the mDNS group; only queries that ask for unicast delivery are used".into());
    }
    let pid = std::process::id();
    let rt = tokio::runtime::Builder::new_multi_thread().worker_threads(2).enable_all().build().unwrap();
    let rounds = ctx.tier.pick(8u64, 80u64);
    let mut qid: u16 = 0x3000;
    // one exchange: send (up to `sends` times), return the first datagram carrying our id with the response bit
    let exchange = |bytes: &[u8], id: u16, sends: u32, wait_each: Duration| -> Option<(Vec<u8>, bool)> {
        let mut buf = vec![0u8; 65535];
        for _ in 0..sends {
            let _ = sock.send_to(bytes, group);
            let deadline = Instant::now() + wait_each;
            while Instant::now() < deadline {
                if let Ok((n, _)) = sock.recv_from(&mut buf) {
                    if n >= 12 && u16::from_be_bytes([buf[0], buf[1]]) == id && buf[2] & 0x80 != 0 {
                        return Some((buf[..n].to_vec(), true));
                    }
                }
                if let Some(t) = &tap {
                    while let Ok((n, _)) = t.recv_from(&mut buf) {
                        if n >= 12 && u16::from_be_bytes([buf[0], buf[1]]) == id && buf[2] & 0x80 != 0 {
                            return Some((buf[..n].to_vec(), false));
                        }
                    }
                }
            }
        }
        None
    };
    for round in 0..rounds {
        if ctx.time_up() {
            break;
        }
        let tokio_side = round % 2 == 1;
        // rounds 0,1 of every four: responders holding arbitrary records; rounds 2,3: a ServiceDiscovery answering for
        // its own instance (what it registers is the PTR record plus the public InstanceInformation::into_records)
        let discovery_side = round % 4 >= 2;
        let who = match (discovery_side, tokio_side) {
            (false, false) => "sync SimpleMdnsResponder",
            (false, true) => "tokio SimpleMdnsResponder",
            (true, false) => "sync ServiceDiscovery (reply path)",
            (true, true) => "tokio ServiceDiscovery (reply path)",
        };
        let mut r = ctx.rng("live", round);
        let suffix = format!("v{}r{}", pid, round).into_bytes();
        let mut names: Vec<NameM> = (0..r.usize(3, 6)).map(|_| { let mut n = u1_name(&mut r); n.push(suffix.clone()); n }).collect();
        let mut members: Vec<RecSem> = Vec::new();
        let mut marker = RecSem { name: vec![b"marker".to_vec(), suffix.clone()], rtype: 1, class: 1, flush: false, ttl: 10, rd: Rd::Fields(vec![F::Int(0x7F000001)]) };
        let mut marker_qtype = 1u16;
        let mut disc_info: Option<(simple_mdns::InstanceInformation, String)> = None;
        if discovery_side {
            let service_s = format!("_s{}._tcp.{}", round, String::from_utf8_lossy(&suffix));
            let mut info = simple_mdns::InstanceInformation::new("inst".into());
            for k in 0..r.below(3) {
                info = info.with_ip_address(if r.bool() { std::net::IpAddr::V4(std::net::Ipv4Addr::new(10, 0, k as u8, r.below(4) as u8)) } else { std::net::IpAddr::V6(std::net::Ipv6Addr::new(0xfe80, 0, 0, 0, 0, 0, k as u16, r.below(4) as u16)) });
            }
            for _ in 0..r.below(3) {
                info = info.with_port(*r.pick(&[80u16, 443, 8080, 0, 65535]));
            }
            for k in 0..r.below(3) {
                info = info.with_attribute(format!("k{}", k), if r.bool() { Some(format!("v{}", r.below(9))) } else { None });
            }
            let service: NameM = service_s.split('.').map(|l| l.as_bytes().to_vec()).collect();
            let mut full = service.clone();
            full.insert(0, b"inst".to_vec());
            let full_lib = bridge::lib_name(&full);
            members.push(RecSem { name: service.clone(), rtype: 12, class: 1, flush: false, ttl: 10, rd: Rd::Fields(vec![F::Name(full.clone())]) });
            match monitor::guard(|| info.clone().into_records(&full_lib, 10).map(|v| v.iter().map(bridge::obs_record).collect::<Vec<_>>()).map_err(|e| format!("{:?}", e))) {
                Ok(Ok(v)) => {
                    for mut m in v {
                        norm_txt(&mut m);
                        if !members.iter().any(|x| ident_of(x) == ident_of(&m)) {
                            members.push(m);
                        }
                    }
                }
                _ => continue,
            }
            names = vec![service.clone(), full.clone(), service[1..].to_vec()];
            marker = members[0].clone();
            marker_qtype = 12;
            disc_info = Some((info, service_s));
        } else {
            for _ in 0..r.usize(4, 10) {
                let rec = u1_record(&mut r, &names);
                if !members.iter().any(|m| ident_of(m) == ident_of(&rec)) {
                    members.push(rec);
                }
            }
            members.push(marker.clone());
        }
        // the responder (kept alive for the round; its thread / task stays behind afterwards, holding names nobody asks for)
        let started = monitor::guard(|| {
            if let Some((info, service_s)) = &disc_info {
                if tokio_side {
                    let _g = rt.enter();
                    (None, None, None, async_discovery::ServiceDiscovery::new(info.clone(), service_s, 10).ok())
                } else {
                    (None, None, sync_discovery::ServiceDiscovery::new(info.clone(), service_s, 10).ok(), None)
                }
            } else if tokio_side {
                let _g = rt.enter();
                let mut a = async_discovery::SimpleMdnsResponder::new(10);
                for m in &members {
                    rt.block_on(a.add_resource(bridge::lib_record(m).unwrap().into_owned()));
                }
                (None, Some(a), None, None)
            } else {
                let mut s = sync_discovery::SimpleMdnsResponder::new(10);
                for m in &members {
                    s.add_resource(bridge::lib_record(m).unwrap().into_owned());
                }
                (Some(s), None, None, None)
            }
        });
        let _keep = match started {
            Ok(x) => x,
            Err(pn) => {
                ctx.panic_violation("starting a responder", &pn, json!({"family": "live", "idx": round}));
                return;
            }
        };
        std::thread::sleep(Duration::from_millis(120));
        let marker_q = vec![QSem { name: marker.name.clone(), qtype: marker_qtype, qclass: 1, unicast: true }];
        qid = qid.wrapping_add(1);
        let mq = query_packet(qid, &marker_q).build_bytes_vec().unwrap();
        if exchange(&mq, qid, 8, Duration::from_millis(300)).is_none() {
            ctx.inconclusive.push(format!("live responders: the {} of round {} did not answer its marker query (multicast unavailable?)", who, round));
            ctx.count("live_rounds_skipped");
            continue;
        }
        let model = ModelStore { recs: members.iter().map(|m| (ident_of(m), true)).collect() };
        let history: Vec<String> = members.iter().map(|m| format!("registered {} type {} class {}", name_text(&m.name), m.rtype, m.class)).collect();
        for _ in 0..ctx.tier.pick(30, 60) {
            let nq = r.usize(1, 3);
            let qs: Vec<QSem> = (0..nq).map(|_| {
                let name = if r.chance(4, 5) { r.pick(&names).clone() } else { let mut n = u1_name(&mut r); n.push(suffix.clone()); n };
                let name = match r.below(6) { 0 if name.len() > 2 => name[1..].to_vec(), 1 => { let mut n2 = name.clone(); n2.insert(0, b"a".to_vec()); n2 }, _ => name };
                QSem { name, qtype: *r.pick(&[1u16, 28, 33, 16, 12, 7, 8, 9, 15, 255, 255, 253, 5, 2, 13, 10]), qclass: *r.pick(&[1u16, 1, 3, 255]), unicast: if tap.is_some() { r.chance(1, 2) } else { true } }
            }).collect();
            qid = qid.wrapping_add(1);
            let must = model.recs.iter().any(|(i, _)| qs.iter().any(|q| i.name == q.name && type_match(q.qtype, i.rtype) && class_match(q.qclass, i.class)));
            let may = model.recs.iter().any(|(i, _)| qs.iter().any(|q| under_ci(&i.name, &q.name) && type_match(q.qtype, i.rtype) && class_match(q.qclass, i.class)));
            // one query in three carries records of its own: known answers (registered or not), authority or additional records
            let mut carried: Vec<(usize, RecSem)> = Vec::new();
            if r.chance(1, 3) {
                for _ in 0..r.usize(1, 2) {
                    let rec = if r.bool() { r.pick(&members).clone() } else { u1_record(&mut r, &names) };
                    carried.push((*r.pick(&[0usize, 0, 0, 1, 2]), rec));
                }
                ctx.count("live_queries_carrying_records");
            }
            let bytes = query_packet_with(qid, &qs, &carried).build_bytes_vec().unwrap();
            ctx.case(true, fnv(&bytes) ^ fnv(format!("{:?}", model.recs).as_bytes()));
            ctx.count("live_queries_sent");
            let case = || json!({"family": "live", "idx": round, "responder": who, "history": history, "query": hex(&bytes),
                "questions": qs.iter().map(|q| format!("{} qtype {} qclass {} unicast {}", name_text(&q.name), q.qtype, q.qclass, q.unicast)).collect::<Vec<_>>()});
            let got = if must { exchange(&bytes, qid, 3, Duration::from_millis(400)) } else { exchange(&bytes, qid, 1, Duration::from_millis(if may { 150 } else { 60 })) };
            match got {
                None if must => {
                    // lost datagrams or a responder that does not answer this query? ask for the marker
                    qid = qid.wrapping_add(1);
                    let mq = query_packet(qid, &marker_q).build_bytes_vec().unwrap();
                    if exchange(&mq, qid, 3, Duration::from_millis(400)).is_some() {
                        ctx.violation("complete", "live-no-reply-although-records-match",
                            format!("the {} sent no reply to a query (3 transmissions) for which registered records match exactly, while it answers its marker query", who), case());
                    } else {
                        ctx.inconclusive.push(format!("live responders: the {} stopped answering in round {}", who, round));
                    }
                    break;
                }
                None => ctx.count("live_no_reply_as_allowed"),
                Some((reply, via_unicast)) => {
                    ctx.count("live_replies_received");
                    match monitor::guard(|| Packet::parse(&reply).map(|p| bridge::observe(&p)).map_err(|e| format!("{:?}", e))) {
                        Ok(Ok(mut rp)) => {
                            if discovery_side {
                                for sec in rp.secs.iter_mut() {
                                    for rec in sec.iter_mut() {
                                        norm_txt(rec);
                                    }
                                }
                            }
                            judge(ctx, &model, &qs, qid, Some((rp, via_unicast)), &case)
                        }
                        Ok(Err(e)) => ctx.violation("sound", "live-reply-unparseable", format!("the {} sent a reply that does not parse: {}", who, e), case()),
                        Err(pn) => ctx.panic_violation("parsing a live reply", &pn, case()),
                    }
                }
            }
        }
    }
    for fp in monitor::take_foreign_panics() {
        let loc = monitor::short_loc(&fp.location);
        ctx.violation("sound", &format!("service-thread-panic@{}", loc), format!("a responder thread panicked during the live family: {}", fp.message), json!({"family": "live", "idx": 0}));
    }
    super::common::report_lock_discipline(ctx, "sound", "live");
    rt.shutdown_timeout(Duration::from_millis(200));
}

pub fn run(ctx: &mut Ctx) {
    if ctx.shard == 0 && !ctx.slow_tool && !cfg!(miri) && ctx.family_active("live") && ctx.tape_case().is_none() && std::env::var_os("VERIF_C13_NO_LIVE").is_none() {
        live(ctx);
    }
    if let Some(tape) = ctx.tape_case() {
        // replay of a case found by the coverage-guided `model` target: the tape drives every generator decision
        super::model_case("C13", ctx, &tape);
        return;
    }
    if ctx.family_active("u0") && !ctx.slow_tool {
        ctx.set_enumerated(true);
        u0(ctx);
        ctx.set_enumerated(false);
    }
    if ctx.family_active("u1") {
        u1(ctx);
    }
}
