//! C16 – owned copies equal originals; equality and hashing agree.

use super::common::*;
use crate::bridge;
use crate::ctx::*;
use crate::gen::{Cfg, Gen};
use crate::model::*;
use crate::monitor;
use crate::refdns::*;
use crate::rng::{fnv, Rng};
use serde_json::json;
use simple_dns::{Name, Packet, Question, ResourceRecord};
use simple_mdns::InstanceInformation;
use std::collections::hash_map::DefaultHasher;
use std::collections::HashSet;
use std::hash::{Hash, Hasher};
use std::net::{IpAddr, Ipv4Addr, Ipv6Addr};

pub fn meta() -> Meta {
    Meta {
        rule: "for packets parsed from reference encodings (arbitrary compression, all 40 types, opaque/empty RDATA) and packets built from parts: every question, record, \
name and RDATA value x is cloned and converted with into_owned; clone == x and owned == x where PartialEq exists; then the receive buffer is overwritten and dropped and \
the owned copies are observed (model) and re-serialised: both must equal the original's model and bytes (this also covers TTL / cache-flush / unicast, which == ignores). \
every record is compared with a copy whose class was changed through the public field (if they compare equal they must hash equally; messages with several OPT records supply records holding OPT data); values made by the public constructors and setters (TXT from text / maps / nothing, NULL, SVCB and HTTPS through their setters) get the same clone / into_owned / hash / bytes checks; NSEC values are checked again after their public window list was reversed by the application (clone, into_owned, hash, bytes); TXT, OPT, NSEC and SVCB values are compared with a copy built from the same members in reverse order (if the pair compares equal it must hash equally, as RDATA and as record). Hash: for equal pairs obtained through different routes (parsed vs built, same record with different TTL / cache-flush, Name vs Name, RData vs RData) hashes must be equal under a fixed \
DefaultHasher; InstanceInformation values built by inserting the same addresses/ports/attributes in different orders into separately created sets must be ==, hash equally and \
be found by HashSet::contains. non-trivial = packet with >= 1 record or question / instance with >= 2 set members; distinct = hash of the case",
        assumptions: &["DefaultHasher::new() is deterministic (fixed keys)"],
        exhaustive: false,
        min_distinct: 1000,
    }
}

fn h<T: Hash>(t: &T) -> u64 {
    let mut s = DefaultHasher::new();
    t.hash(&mut s);
    s.finish()
}

fn packet_of<'a>(qs: Vec<Question<'a>>, recs: Vec<ResourceRecord<'a>>) -> Packet<'a> {
    let mut p = Packet::new_reply(0x4242);
    p.questions = qs;
    p.answers = recs;
    p
}

pub fn check_bytes(ctx: &mut Ctx, family: &str, idx: u64, input: &[u8], built_twin: Option<&PktM>) {
    let case = || case_bytes_json(family, idx, input);
    let mut buf = input.to_vec();
    let r = monitor::guard(|| {
        let p = match Packet::parse(&buf) {
            Ok(p) => p,
            Err(_) => return None,
        };
        let all: Vec<&ResourceRecord> = p.answers.iter().chain(p.name_servers.iter()).chain(p.additional_records.iter()).collect();
        let mut problems: Vec<String> = Vec::new();
        let mut nsec_variants = 0u64;
        let mut reorder_variants = 0u64;
        // clone / into_owned equality where PartialEq exists
        for r in &all {
            let c = (*r).clone();
            let o = (*r).clone().into_owned();
            if c != **r { problems.push(format!("record-clone-ne:{}", type_name(u16::from(r.rdata.type_code())))); }
            if o != **r { problems.push(format!("record-owned-ne:{}", type_name(u16::from(r.rdata.type_code())))); }
            if r.rdata.clone().into_owned() != r.rdata { problems.push(format!("rdata-owned-ne:{}", type_name(u16::from(r.rdata.type_code())))); }
            if r.name.clone().into_owned() != r.name { problems.push("name-owned-ne".into()); }
            if h(&o) != h(*r) { problems.push(format!("record-owned-hash-ne:{}", type_name(u16::from(r.rdata.type_code())))); }
            if h(&r.rdata.clone().into_owned()) != h(&r.rdata) { problems.push("rdata-owned-hash-ne".into()); }
            if h(&r.name.clone().into_owned()) != h(&r.name) { problems.push("name-owned-hash-ne".into()); }
            for l in r.name.get_labels() {
                if l.clone().into_owned() != *l || h(&l.clone().into_owned()) != h(l) { problems.push("label-owned-ne".into()); }
            }
            // same identity, different TTL / cache-flush: == and hash must agree
            let mut t = (*r).clone();
            t.ttl = t.ttl.wrapping_add(17);
            t.cache_flush = !t.cache_flush;
            if t == **r && h(&t) != h(*r) { problems.push("eq-but-hash-differs:ttl-variant".into()); }
            if t != **r { problems.push("ttl-variant-not-equal".into()); }
            // same record with another class, set through the public field: if the two compare equal (for whatever reason)
            // they must hash equally and be found in a hash set
            let mut cv = (*r).clone();
            cv.class = if matches!(r.class, simple_dns::CLASS::IN) { simple_dns::CLASS::CH } else { simple_dns::CLASS::IN };
            if cv == **r {
                if h(&cv) != h(*r) { problems.push(format!("eq-but-hash-differs:class-variant:{}", type_name(u16::from(r.rdata.type_code())))); }
                let mut set = HashSet::new();
                set.insert((*r).clone());
                if !set.contains(&cv) { problems.push(format!("hashset-misses-equal-record:class-variant:{}", type_name(u16::from(r.rdata.type_code())))); }
            }
            // near-equal variants (ASCII case of the owner / of names inside the RDATA flipped): whatever the equality
            // policy is, values that compare equal must hash equally and be found in a hash set
            let flip = |n: &Name| -> Name<'static> {
                let labels: Vec<simple_dns::Label<'static>> = n.get_labels().iter().map(|l| {
                    let b: Vec<u8> = l.verif_bytes().iter().map(|c| if c.is_ascii_lowercase() { c.to_ascii_uppercase() } else { c.to_ascii_lowercase() }).collect();
                    simple_dns::Label::new_unchecked(b)
                }).collect();
                Name::new_with_labels(&labels)
            };
            let mut v = (*r).clone().into_owned();
            v.name = flip(&r.name);
            if v == **r {
                if h(&v) != h(*r) { problems.push("eq-but-hash-differs:record-owner-case-variant".into()); }
                let mut set = HashSet::new();
                set.insert((*r).clone());
                if !set.contains(&v) { problems.push("hashset-misses-equal-record:case-variant".into()); }
            }
            if v.name == r.name && h(&v.name) != h(&r.name) { problems.push("eq-but-hash-differs:name-case-variant".into()); }
            if let simple_dns::rdata::RData::PTR(n) = &r.rdata {
                let w = simple_dns::rdata::RData::PTR(flip(&n.0).into());
                if w == r.rdata && h(&w) != h(&r.rdata) { problems.push("eq-but-hash-differs:rdata-name-case-variant".into()); }
            }
            // a value the application edited through its public fields: NSEC windows in another order (the parser only
            // produces increasing windows, a constructed value need not be sorted)
            if let simple_dns::rdata::RData::NSEC(n) = &r.rdata {
                if n.type_bit_maps.len() >= 2 {
                    let mut e = (*r).clone();
                    if let simple_dns::rdata::RData::NSEC(m) = &mut e.rdata { m.type_bit_maps.reverse(); }
                    let eo = e.clone().into_owned();
                    if eo != e { problems.push("record-owned-ne:NSEC:windows-reordered".into()); }
                    if e.clone() != e { problems.push("record-clone-ne:NSEC:windows-reordered".into()); }
                    if eo == e && h(&eo) != h(&e) { problems.push("eq-but-hash-differs:NSEC:windows-reordered".into()); }
                    let pe = packet_of(vec![], vec![e.clone()]);
                    let po = packet_of(vec![], vec![eo]);
                    if pe.build_bytes_vec().ok() != po.build_bytes_vec().ok() { problems.push("owned-bytes-differ:NSEC:windows-reordered".into()); }
                    nsec_variants += 1;
                }
            }
            // the same members put together in another order: whatever equality says about the pair, hashing must agree with it
            {
                let mut variant: Option<simple_dns::rdata::RData> = None;
                match &r.rdata {
                    simple_dns::rdata::RData::TXT(t) if t.verif_strings().len() >= 2 => {
                        let mut v = simple_dns::rdata::TXT::new();
                        for sbytes in t.verif_strings().iter().rev() {
                            if let Ok(cs) = simple_dns::CharacterString::new(sbytes) { v = v.with_char_string(cs.into_owned()); }
                        }
                        variant = Some(simple_dns::rdata::RData::TXT(v.into_owned()));
                    }
                    simple_dns::rdata::RData::OPT(o) if o.opt_codes.len() >= 2 => {
                        let mut v = o.clone();
                        v.opt_codes.reverse();
                        variant = Some(simple_dns::rdata::RData::OPT(v.into_owned()));
                    }
                    simple_dns::rdata::RData::NSEC(n) if n.type_bit_maps.len() >= 2 => {
                        let mut v = n.clone();
                        v.type_bit_maps.reverse();
                        variant = Some(simple_dns::rdata::RData::NSEC(v.into_owned()));
                    }
                    simple_dns::rdata::RData::SVCB(sv) if sv.iter_params().count() >= 2 => {
                        let mut v = simple_dns::rdata::SVCB::new(sv.priority, sv.target.clone());
                        let ps: Vec<(u16, Vec<u8>)> = sv.iter_params().map(|(k, d)| (k, d.to_vec())).collect();
                        for (k, d) in ps.into_iter().rev() { let _ = v.set_param(k, d); }
                        variant = Some(simple_dns::rdata::RData::SVCB(v.into_owned()));
                    }
                    _ => {}
                }
                if let Some(v) = variant {
                    let tn = type_name(u16::from(r.rdata.type_code()));
                    if v == r.rdata && h(&v) != h(&r.rdata) { problems.push(format!("eq-but-hash-differs:rdata-members-reordered:{}", tn)); }
                    let mut rv = (*r).clone().into_owned();
                    rv.rdata = v;
                    if rv == **r && h(&rv) != h(*r) { problems.push(format!("eq-but-hash-differs:record-members-reordered:{}", tn)); }
                    reorder_variants += 1;
                }
            }
            // OPT data that differs in one scalar (payload sizes a receiver may treat alike, versions): equal or not, hashing agrees
            if let simple_dns::rdata::RData::OPT(o) = &r.rdata {
                for udp in [0u16, 1, 255, 256, 511, 512, 513, 1232, 4096, 65535] {
                    for dv in [0u8, 1] {
                        let mut v = o.clone();
                        v.udp_packet_size = udp;
                        v.version = o.version.wrapping_add(dv);
                        if v == *o && h(&v) != h(o) { problems.push("eq-but-hash-differs:OPT:scalar-variant".into()); }
                        let rv = simple_dns::rdata::RData::OPT(v);
                        if rv == r.rdata && h(&rv) != h(&r.rdata) { problems.push("eq-but-hash-differs:rdata:OPT-scalar-variant".into()); }
                        let mut rec = (*r).clone();
                        rec.rdata = rv;
                        if rec == **r && h(&rec) != h(*r) { problems.push("eq-but-hash-differs:record:OPT-scalar-variant".into()); }
                    }
                }
            }
            if let simple_dns::rdata::RData::HINFO(x) = &r.rdata {
                let fl: Vec<u8> = x.cpu.verif_bytes().iter().map(|c| if c.is_ascii_lowercase() { c.to_ascii_uppercase() } else { c.to_ascii_lowercase() }).collect();
                if let Ok(cs) = simple_dns::CharacterString::new(&fl) {
                    if cs == x.cpu && h(&cs) != h(&x.cpu) { problems.push("eq-but-hash-differs:character-string-case-variant".into()); }
                }
            }
        }
        for q in &p.questions {
            if q.qname.clone().into_owned() != q.qname { problems.push("qname-owned-ne".into()); }
        }
        // original model and bytes (built from borrowed clones)
        let obs_q: Vec<QSem> = p.questions.iter().map(bridge::obs_question).collect();
        let obs_r: Vec<RecSem> = all.iter().map(|r| bridge::obs_record(r)).collect();
        let borrowed = packet_of(p.questions.clone(), all.iter().map(|r| (*r).clone()).collect());
        let bytes0 = borrowed.build_bytes_vec().ok();
        let bytes0c = borrowed.build_bytes_vec_compressed().ok();
        // owned copies
        let owned_q: Vec<Question<'static>> = p.questions.iter().map(|q| q.clone().into_owned()).collect();
        let owned_r: Vec<ResourceRecord<'static>> = all.iter().map(|r| (*r).clone().into_owned()).collect();
        let owned_opt = p.opt().map(|o| o.clone().into_owned());
        let obs_opt = p.opt().map(|o| (o.udp_packet_size, o.version, o.opt_codes.iter().map(|c| (c.code, c.data.to_vec())).collect::<Vec<_>>()));
        Some((problems, obs_q, obs_r, bytes0, bytes0c, owned_q, owned_r, owned_opt, obs_opt, nsec_variants, reorder_variants))
    });
    let (problems, obs_q, obs_r, bytes0, bytes0c, owned_q, owned_r, owned_opt, obs_opt, nsec_variants, reorder_variants) = match r {
        Err(pn) => {
            ctx.panic_violation("clone/into_owned/hash", &pn, case());
            return;
        }
        Ok(None) => {
            ctx.case(false, 0);
            return;
        }
        Ok(Some(x)) => x,
    };
    ctx.case_bytes(!obs_q.is_empty() || !obs_r.is_empty(), input);
    ctx.add("records_checked", obs_r.len() as u64);
    ctx.add("nsec_values_with_reordered_windows", nsec_variants);
    ctx.add("values_compared_with_a_copy_whose_members_are_reordered", reorder_variants);
    for pr in problems {
        ctx.violation("owned-equals-original", &pr, format!("clone/into_owned/hash disagreement: {}", pr), case());
    }
    // the receive buffer goes away
    for x in buf.iter_mut() {
        *x = 0xEE;
    }
    drop(buf);
    let r2 = monitor::guard(|| {
        let oq: Vec<QSem> = owned_q.iter().map(bridge::obs_question).collect();
        let or: Vec<RecSem> = owned_r.iter().map(bridge::obs_record).collect();
        let op = packet_of(owned_q.clone(), owned_r.clone());
        let oo = owned_opt.as_ref().map(|o| (o.udp_packet_size, o.version, o.opt_codes.iter().map(|c| (c.code, c.data.to_vec())).collect::<Vec<_>>()));
        (oq, or, op.build_bytes_vec().ok(), op.build_bytes_vec_compressed().ok(), oo)
    });
    match r2 {
        Err(pn) => ctx.panic_violation("observing owned copies", &pn, case()),
        Ok((oq, or, b1, b1c, oo)) => {
            if oq != obs_q {
                ctx.violation("owned-equals-original", "owned-question-differs", "into_owned changed a question".into(), case());
            }
            for (a, b) in obs_r.iter().zip(or.iter()) {
                if a != b {
                    let field = if a.name != b.name { "owner" } else if a.ttl != b.ttl { "ttl" } else if a.flush != b.flush { "cache-flush" } else if a.class != b.class { "class" } else { "rdata" };
                    ctx.violation("owned-equals-original", &format!("owned-record-differs:{}:{}", type_name(a.rtype), field),
                        format!("into_owned changed a {} record ({}): {:?} vs {:?}", type_name(a.rtype), field, short_rd(&a.rd), short_rd(&b.rd)), case());
                    break;
                }
            }
            if b1 != bytes0 || b1c != bytes0c {
                ctx.violation("owned-serialises-identically", "owned-bytes-differ", "the owned copy serialises to different bytes than the original".into(), case());
            }
            if oo != obs_opt {
                ctx.violation("owned-equals-original", "owned-opt-differs", "OPT::into_owned changed the EDNS data".into(), case());
            }
            ctx.count("owned_copies_compared");
        }
    }
    // parsed vs built route
    if let Some(m) = built_twin {
        let r3 = monitor::guard(|| {
            let built = bridge::to_lib(m).ok()?;
            let parsed = Packet::parse(input).ok()?;
            let mut probs: Vec<String> = Vec::new();
            for (a, b) in built.answers.iter().zip(parsed.answers.iter()) {
                if a == b {
                    if h(a) != h(b) { probs.push(format!("eq-but-hash-differs:parsed-vs-built:{}", type_name(u16::from(a.rdata.type_code())))); }
                    let mut s = HashSet::new();
                    s.insert(a.clone());
                    if !s.contains(b) { probs.push("hashset-misses-equal-record".into()); }
                    if a.name == b.name && h(&a.name) != h(&b.name) { probs.push("eq-but-hash-differs:name".into()); }
                    if a.rdata == b.rdata && h(&a.rdata) != h(&b.rdata) { probs.push("eq-but-hash-differs:rdata".into()); }
                } else {
                    probs.push(format!("parsed-ne-built:{}", type_name(u16::from(a.rdata.type_code()))));
                }
            }
            Some((probs, built.answers.len()))
        });
        match r3 {
            Ok(Some((probs, n))) => {
                ctx.add("parsed_vs_built_pairs", n as u64);
                for pr in probs {
                    ctx.violation("eq-implies-hash-eq", &pr, format!("equal values through different routes: {}", pr), case());
                }
            }
            Ok(None) => {}
            Err(pn) => ctx.panic_violation("parsed vs built comparison", &pn, case()),
        }
    }
}

/// Names, labels and character-strings borrowed from one backing buffer, starting at the same address or overlapping: comparing
/// and hashing them must not depend on where the bytes live (equal ⇒ equal hashes; the owned copies relate as the originals do).
fn shared_buffer(ctx: &mut Ctx) {
    use simple_dns::{CharacterString, Label};
    let n = if ctx.slow_tool { 4 } else { ctx.tier.pick(300u64, 10_000u64) };
    for idx in 0..n {
        if !ctx.take("shared-buffer", idx) {
            continue;
        }
        let mut r = ctx.rng("shared-buffer", idx);
        // e.g. "printer-office.local": prefixes "printer", "printer-office", "printer-office.local" share their start
        let words = ["printer", "office", "a", "ab", "abc", "local", "x1", "host"];
        let mut text = String::new();
        for k in 0..r.usize(2, 5) {
            if k > 0 { text.push(*r.pick(&['-', '.', '_'])); }
            text.push_str(*r.pick(&words));
        }
        ctx.case(true, fnv(text.as_bytes()) ^ 0x5BAF);
        let case = || json!({"family": "shared-buffer", "idx": idx, "text": text});
        let res = monitor::guard(|| {
            let mut problems: Vec<String> = Vec::new();
            let cuts: Vec<usize> = (1..=text.len()).filter(|i| text.is_char_boundary(*i)).collect();
            let names: Vec<(usize, Name)> = cuts.iter().filter_map(|i| Name::new(&text[..*i]).ok().map(|n| (*i, n))).collect();
            for (i, a) in &names {
                for (j, b) in &names {
                    let (ao, bo) = (a.clone().into_owned(), b.clone().into_owned());
                    if a == b && h(a) != h(b) { problems.push(format!("eq-but-hash-differs:name-prefixes:{}:{}", i, j)); }
                    if (a == b) != (ao == bo) { problems.push(format!("owned-copies-relate-differently:name-prefixes:{}:{}", i, j)); }
                    if (a == b) != (bridge::obs_name(a) == bridge::obs_name(b)) && i != j && !text[..*i.max(j)].eq_ignore_ascii_case(&text[..*i.min(j)]) { problems.push(format!("names-of-different-labels-compare-equal:{}:{}", i, j)); }
                }
            }
            let bytes = text.as_bytes();
            let labels: Vec<(usize, Label)> = (1..=bytes.len().min(63)).filter_map(|i| Label::new(&bytes[..i]).ok().map(|l| (i, l))).collect();
            for (i, a) in &labels {
                for (j, b) in &labels {
                    if a == b && h(a) != h(b) { problems.push(format!("eq-but-hash-differs:label-prefixes:{}:{}", i, j)); }
                }
            }
            let strings: Vec<(usize, CharacterString)> = (0..=bytes.len()).filter_map(|i| CharacterString::new(&bytes[..i]).ok().map(|c| (i, c))).collect();
            for (i, a) in &strings {
                for (j, b) in &strings {
                    if a == b && h(a) != h(b) { problems.push(format!("eq-but-hash-differs:character-string-prefixes:{}:{}", i, j)); }
                    if (a == b) != (a.clone().into_owned() == b.clone().into_owned()) { problems.push(format!("owned-copies-relate-differently:character-string-prefixes:{}:{}", i, j)); }
                }
            }
            problems
        });
        match res {
            Err(pn) => ctx.panic_violation("comparing values borrowed from one buffer", &pn, case()),
            Ok(problems) => {
                ctx.count("shared_buffer_texts_compared");
                let mut seen = HashSet::new();
                for pr in problems {
                    let sig: String = pr.split(':').take(2).collect::<Vec<_>>().join(":");
                    if seen.insert(sig.clone()) {
                        ctx.violation("eq-implies-hash-eq", &sig, format!("values cut from the text {:?}: {}", text, pr), case());
                    }
                }
            }
        }
    }
}

/// Two spellings of one type: the named variant and `Unknown(code)` written by hand (and the same inside `RData::Empty`, inside
/// the NULL variant and inside a record). Whatever equality says about such a pair, hashing must agree; all 65 536 codes.
fn type_spellings(ctx: &mut Ctx) {
    use simple_dns::rdata::{RData, NULL};
    use simple_dns::{ResourceRecord, CLASS, TYPE};
    let step = if ctx.slow_tool { 257 } else { 1 };
    for c in (0..=0xFFFFu32).step_by(step) {
        let c = c as u16;
        if !ctx.take("type-spellings", c as u64) {
            continue;
        }
        ctx.case(true, 0x7E00_0000 ^ c as u64);
        let r = monitor::guard(|| {
            let (a, b) = (TYPE::from(c), TYPE::Unknown(c));
            let mut problems: Vec<&'static str> = Vec::new();
            if a == b && h(&a) != h(&b) { problems.push("TYPE"); }
            let (ea, eb) = (RData::Empty(a), RData::Empty(b));
            if ea == eb && h(&ea) != h(&eb) { problems.push("RData::Empty"); }
            let owner = Name::new("t.example").unwrap();
            let (ra, rb) = (ResourceRecord::new(owner.clone(), CLASS::IN, 1, ea.clone()), ResourceRecord::new(owner.clone(), CLASS::IN, 2, eb.clone()));
            if ra == rb && h(&ra) != h(&rb) { problems.push("ResourceRecord"); }
            // opaque data filed under the code vs the same bytes in a record parsed from the wire
            let na = RData::NULL(c, NULL::new(&[7]).unwrap());
            let nb = na.clone().into_owned();
            if na == nb && h(&na) != h(&nb) { problems.push("RData::NULL"); }
            if ea.clone().into_owned() != ea || eb.clone().into_owned() != eb { problems.push("into_owned"); }
            problems
        });
        match r {
            Err(pn) => ctx.panic_violation("comparing two spellings of a type", &pn, json!({"family": "type-spellings", "idx": c})),
            Ok(problems) => {
                for what in &problems {
                    ctx.violation("eq-implies-hash-eq", &format!("eq-but-hash-differs:type-spellings:{}", what),
                        format!("type code {}: the named spelling and Unknown({}) compare equal as {} but hash differently (or the owned copy differs)", c, c, what), json!({"family": "type-spellings", "idx": c}));
                }
                if problems.is_empty() {
                    ctx.count("type_spellings_consistent");
                }
            }
        }
    }
}

/// Values made by the public constructors and setters (not by the parser): clone and into_owned must give equal values
/// with equal hashes and equal bytes.
fn constructed_values(ctx: &mut Ctx) {
    use simple_dns::rdata::{RData, NULL, SVCB, TXT};
    use simple_dns::CLASS;
    let r = monitor::guard(|| {
        let mut vals: Vec<(String, RData<'static>)> = Vec::new();
        vals.push(("TXT::new()".into(), RData::TXT(TXT::new())));
        vals.push(("TXT::try_from(\"\")".into(), RData::TXT(TXT::try_from("").unwrap().into_owned())));
        vals.push(("TXT::try_from(empty map)".into(), RData::TXT(TXT::try_from(std::collections::HashMap::new()).unwrap())));
        vals.push(("TXT::try_from(\"abc\")".into(), RData::TXT(TXT::try_from("abc").unwrap().into_owned())));
        for n in [254usize, 255, 256, 508, 600] {
            let text = "t".repeat(n);
            vals.push((format!("TXT::try_from({} bytes)", n), RData::TXT(TXT::try_from(text.as_str()).unwrap().into_owned())));
        }
        let mut m = std::collections::HashMap::new();
        m.insert("k".to_string(), Some("v".to_string()));
        m.insert("flag".to_string(), None);
        vals.push(("TXT::try_from(map)".into(), RData::TXT(TXT::try_from(m).unwrap())));
        vals.push(("TXT with_string x2".into(), RData::TXT(TXT::new().with_string("a").unwrap().with_string("").unwrap().into_owned())));
        vals.push(("NULL::new(empty)".into(), RData::NULL(10, NULL::new(&[]).unwrap().into_owned())));
        vals.push(("NULL::new(3 bytes)".into(), RData::NULL(65280, NULL::new(&[1, 2, 3]).unwrap().into_owned())));
        let mut s1 = SVCB::new(0, Name::new("alias.example").unwrap().into_owned());
        vals.push(("SVCB::new alias".into(), RData::SVCB(s1.clone())));
        s1.set_port(443);
        s1.set_no_default_alpn();
        let _ = s1.set_mandatory([3u16, 1]);
        let _ = s1.set_ipv4hint([0x0A000001u32]);
        vals.push(("SVCB with setters".into(), RData::SVCB(s1.clone())));
        vals.push(("HTTPS with setters".into(), RData::HTTPS(simple_dns::rdata::HTTPS(s1))));
        let mut problems: Vec<String> = Vec::new();
        for (what, rd) in &vals {
            let rr = ResourceRecord::new(Name::new("built.example").unwrap().into_owned(), CLASS::IN, 30, rd.clone());
            let owned = rr.clone().into_owned();
            if rr.clone() != rr { problems.push(format!("constructed-clone-ne:{}", what)); }
            if owned != rr { problems.push(format!("constructed-owned-ne:{}", what)); }
            if rd.clone().into_owned() != *rd { problems.push(format!("constructed-rdata-owned-ne:{}", what)); }
            if owned == rr && h(&owned) != h(&rr) { problems.push(format!("constructed-eq-but-hash-differs:{}", what)); }
            if h(&rd.clone().into_owned()) != h(rd) && rd.clone().into_owned() == *rd { problems.push(format!("constructed-rdata-eq-but-hash-differs:{}", what)); }
            let mut set = HashSet::new();
            set.insert(rr.clone());
            if owned == rr && !set.contains(&owned) { problems.push(format!("constructed-hashset-misses-owned:{}", what)); }
            let b0 = packet_of(vec![], vec![rr.clone()]).build_bytes_vec().ok();
            let b1 = packet_of(vec![], vec![owned]).build_bytes_vec().ok();
            if b0.is_none() || b0 != b1 { problems.push(format!("constructed-owned-bytes-differ:{}", what)); }
        }
        (vals.len(), problems)
    });
    match r {
        Err(pn) => ctx.panic_violation("constructed values", &pn, json!({"family": "constructed", "idx": 0})),
        Ok((n, problems)) => {
            ctx.add("constructed_values_checked", n as u64);
            for k in 0..n { ctx.case(true, 0xC0C0_0000 ^ k as u64); }
            for pr in problems {
                ctx.violation("owned-equals-original", &pr, format!("value made by a public constructor: {}", pr), json!({"family": "constructed", "idx": 0}));
            }
        }
    }
}

fn instance_pairs(ctx: &mut Ctx, idx: u64) {
    let mut r = ctx.rng("instance", idx);
    let n_ip = r.usize(0, 6);
    let n_port = r.usize(0, 6);
    let ips: Vec<IpAddr> = (0..n_ip).map(|i| if r.bool() { IpAddr::V4(Ipv4Addr::new(10, 0, (i / 256) as u8, i as u8 + r.below(3) as u8 * 50)) } else { IpAddr::V6(Ipv6Addr::new(0xfe80, 0, 0, 0, 0, 0, r.below(3) as u16, i as u16)) }).collect();
    let ports: Vec<u16> = (0..n_port).map(|i| 1000 + i as u16 * 7 + r.below(3) as u16 * 1000).collect();
    let attrs: Vec<(String, Option<String>)> = (0..r.usize(0, 4)).map(|i| (format!("k{}", i), if r.bool() { Some(format!("v{}", r.below(5))) } else { None })).collect();
    let name = format!("inst{}", r.below(5));
    let build = |order_seed: u64| {
        let mut rr = Rng::new(order_seed);
        let (mut a, mut b, mut c) = (ips.clone(), ports.clone(), attrs.clone());
        rr.shuffle(&mut a);
        rr.shuffle(&mut b);
        rr.shuffle(&mut c);
        let mut i = InstanceInformation::new(name.clone());
        for x in a { i = i.with_ip_address(x); }
        for x in b { i = i.with_port(x); }
        for (k, v) in c { i = i.with_attribute(k, v); }
        i
    };
    let dedup_members = { let mut s: HashSet<IpAddr> = HashSet::new(); for i in &ips { s.insert(*i); } s.len() } + { let mut s: HashSet<u16> = HashSet::new(); for p in &ports { s.insert(*p); } s.len() };
    ctx.case(dedup_members >= 2, fnv(format!("{:?}{:?}{:?}{}", ips, ports, attrs, name).as_bytes()));
    let case = || json!({"family": "instance", "idx": idx, "name": name, "ips": ips.iter().map(|i| i.to_string()).collect::<Vec<_>>(), "ports": ports, "attributes": attrs.len()});
    let first = build(1);
    for rep in 0..8u64 {
        let other = build(1000 + rep);
        if first != other {
            ctx.violation("eq", "instance-information-not-equal", "the same members inserted in a different order give unequal values".into(), case());
            return;
        }
        ctx.count("instance_pairs_compared");
        if h(&first) != h(&other) {
            ctx.violation("eq-implies-hash-eq", "eq-but-hash-differs:InstanceInformation",
                format!("two equal InstanceInformation values (same {} addresses / {} ports inserted in different orders) hash differently", ips.len(), ports.len()), case());
            return;
        }
        let mut set = HashSet::new();
        set.insert(first.clone());
        if !set.contains(&other) {
            ctx.violation("eq-implies-hash-eq", "hashset-misses-equal-instance", "HashSet::contains does not find an equal InstanceInformation".into(), case());
            return;
        }
        if first.clone() != first {
            ctx.violation("eq", "instance-clone-ne", "clone differs".into(), case());
        }
    }
}

pub fn run(ctx: &mut Ctx) {
    if let Some(c) = ctx.replay_case.clone() {
        if let Some(b) = c["bytes"].as_str().and_then(unhex) {
            check_bytes(ctx, c["family"].as_str().unwrap_or("replay"), c["idx"].as_u64().unwrap_or(0), &b, None);
            return;
        }
    }
    let tier = ctx.tier;
    let seed = ctx.seed;
    let n = if ctx.slow_tool { 480 } else { tier.pick(80_000u64, 4_000_000u64) };
    for idx in 0..n {
        if !ctx.take("parsed", idx) {
            continue;
        }
        if ctx.stop("parsed") {
            break;
        }
        let mut r = ctx.rng("parsed", idx);
        let mut g = Gen::new(&mut r, Cfg { share: 70, max_entries: 3, max_rest: 30, edns: 30, ..Default::default() });
        let mut p = g.packet();
        if idx % 2 == 0 {
            let t = TYPED_CODES[(idx / 2 % 40) as usize];
            if t != 41 {
                let rec = g.record_of(t);
                p.secs[0].insert(0, rec);
            }
        }
        let m = p.to_wire(g.r.usize(0, 3));
        let b = encode(&m, Plan::Arbitrary(Rng::for_case(seed, "c16-plan", idx))).bytes;
        ctx.sample("parsed", || json!({"bytes": hex(&b)}));
        check_bytes(ctx, "parsed", idx, &b, Some(&p));
    }
    if ctx.family_active("constructed") && ctx.take("constructed", 0) {
        constructed_values(ctx);
    }
    if ctx.family_active("type-spellings") {
        type_spellings(ctx);
    }
    if ctx.family_active("shared-buffer") {
        shared_buffer(ctx);
    }
    // messages with two or three OPT records: the parser lifts one, the others stay in the section as ordinary records
    // holding OPT data (the only way such records come to exist besides building them by hand)
    if ctx.family_active("opt-records") {
        for idx in 0..if ctx.slow_tool { 4 } else { tier.pick(200u64, 5_000u64) } {
            if !ctx.take("opt-records", idx) {
                continue;
            }
            let mut r = ctx.rng("opt-records", idx);
            let mut g = Gen::new(&mut r, Cfg { share: 30, max_entries: 2, max_rest: 10, edns: 0, ..Default::default() });
            let mut m = MsgM { id: idx as u16, flags: 0x8400, ..Default::default() };
            m.secs[0].push(g.record().to_wire());
            for k in 0..2 + idx % 2 {
                let opts = if (idx + k) % 2 == 0 { vec![] } else { vec![(10u16, vec![k as u8; 8]), (3, vec![])] };
                m.secs[2].push(RRM::new(vec![], 41, 512 + (idx as u16 % 4096), ((k as u32) << 16) | 0x8000, Rd::Fields(vec![F::Pairs(opts)])));
            }
            let b = encode(&m, Plan::None).bytes;
            ctx.add("messages_with_several_opt_records", 1);
            check_bytes(ctx, "opt-records", idx, &b, None);
        }
    }
    let ni = if ctx.slow_tool { 160 } else { tier.pick(20_000u64, 1_000_000u64) };
    for idx in 0..ni {
        if ctx.take("instance", idx) {
            if ctx.stop("instance") {
                break;
            }
            instance_pairs(ctx, idx);
        }
    }
    let _ = (pkt_json(&PktM::default()), Name::new("a").is_ok());
}
