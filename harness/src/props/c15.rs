//! C15 – advertised service instances are discovered faithfully.

use crate::bridge;
use crate::ctx::*;
use crate::gen::digits;
use crate::monitor;
use crate::refdns::*;
use crate::rng::{fnv, Rng};
use serde_json::json;
use simple_dns::rdata::RData;
use simple_dns::{Name, Packet, ResourceRecord, CLASS};
use simple_mdns::verif::{add_response_to_resources, from_records, DomainResourceFilter, ResourceRecordManager};
use simple_mdns::InstanceInformation;
use std::collections::{HashMap, HashSet};
use std::net::{IpAddr, Ipv4Addr, Ipv6Addr};

pub fn meta() -> Meta {
    Meta {
        rule: "histories of announcements: 1..5 peers with generated instance descriptions (valid single-label names, 0..5 IPv4/IPv6 addresses, 0..4 ports, attribute \
maps of 0..6 entries with absent/empty/non-empty values) are converted with the public InstanceInformation::into_records, assembled into response packets as announce() does, \
serialised with build_bytes_vec_compressed, parsed, ingested through the hook around the real add_response_to_resources (sync and tokio, each with and without on_discovery channel), read back with get_domain_resources(service, cached()) and from_records. Oracle: the discovered set equals the announced set minus the discoverer's own instance; every \
channel value equals the instance announced by that packet; foreign traffic (own instance, records owned by the service name, sibling service, concatenation-colliding names, parent \
domain, unrelated names) is never reported. A sampled live family starts pairs of real ServiceDiscovery instances (sync/sync and sync/tokio) on loopback multicast and requires \
each to report exactly the other (real announce(), receive loops, get_known_services()); a passive witness socket on the mDNS group counts the response datagrams of each peer, and a listener \
that reports nothing in 3 consecutive rounds although the witness saw the other peer's records at least twice per round is a violation (a single incomplete round is inconclusive). Escape/unescape: bounded-exhaustive over {a . \\ e-acute space} up to length 7 (quick) / 8 (thorough) plus random Unicode. non-trivial = history \
with at least one peer announcement or an escape string containing a dot or backslash; distinct = hash of the history / string",
        assumptions: &["attribute keys are non-empty and free of '='", "re-announcements repeat the same description, unless the peer said goodbye first", "TTLs are large (expiry is C20's subject), except that a peer may say goodbye with TTL 0 and advertise again at once"],
        exhaustive: false,
        min_distinct: 1000,
    }
}

#[derive(Clone, Debug)]
struct Desc {
    name: String,
    ips: Vec<IpAddr>,
    ports: Vec<u16>,
    attrs: Vec<(String, Option<String>)>,
}

impl Desc {
    fn info(&self, order: u64) -> InstanceInformation {
        let mut i = InstanceInformation::new(self.name.clone());
        let mut ips = self.ips.clone();
        let mut ports = self.ports.clone();
        let mut attrs = self.attrs.clone();
        let mut r = Rng::new(order);
        r.shuffle(&mut ips);
        r.shuffle(&mut ports);
        r.shuffle(&mut attrs);
        for ip in ips {
            i = i.with_ip_address(ip);
        }
        for p in ports {
            i = i.with_port(p);
        }
        for (k, v) in attrs {
            i = i.with_attribute(k, v);
        }
        i
    }
}

const KEYS: [&str; 13] = ["a", "b", "path", "txtvers", "k", "key with space", "K2", "é", "x.y", ";", "K", "Path", "PATH"];

fn gen_desc(r: &mut Rng, name: &str) -> Desc {
    let nip = *r.pick(&[0usize, 0, 1, 1, 2, 3, 5]);
    let mut ips: Vec<IpAddr> = Vec::new();
    for _ in 0..nip {
        let ip = if r.chance(1, 8) {
            // IPv6 addresses that embed an IPv4 one (mapped / compatible): they are IPv6 addresses and must stay so
            let v4 = Ipv4Addr::new(*r.pick(&[10u8, 192, 127]), r.u8(), r.below(3) as u8, r.below(4) as u8);
            if r.bool() { IpAddr::V6(v4.to_ipv6_mapped()) } else { IpAddr::V6(v4.to_ipv6_compatible()) }
        } else if r.bool() {
            IpAddr::V4(Ipv4Addr::new(*r.pick(&[10u8, 192, 0, 255]), r.u8(), r.below(3) as u8, r.below(4) as u8))
        } else {
            let mut s = [0u16; 8];
            s[0] = *r.pick(&[0xfe80u16, 0x2001, 0]);
            s[7] = r.below(4) as u16;
            s[3] = r.int(16) as u16;
            IpAddr::V6(Ipv6Addr::new(s[0], s[1], s[2], s[3], s[4], s[5], s[6], s[7]))
        };
        if !ips.contains(&ip) {
            ips.push(ip);
        }
    }
    let np = *r.pick(&[0usize, 1, 1, 2, 4]);
    let mut ports: Vec<u16> = Vec::new();
    for _ in 0..np {
        let p = *r.pick(&[0u16, 1, 80, 443, 8080, 65535, 5353]);
        if !ports.contains(&p) {
            ports.push(p);
        }
    }
    let na = *r.pick(&[0usize, 0, 1, 2, 3, 6]);
    let mut attrs: Vec<(String, Option<String>)> = Vec::new();
    for _ in 0..na {
        let k = r.pick(&KEYS).to_string();
        // keys that differ only in letter case are different keys of the map
        if attrs.iter().any(|(k2, _)| *k2 == k) {
            continue;
        }
        let v = match r.below(5) {
            0 => None,
            1 => Some(String::new()),
            2 => Some("v=with=equals".into()),
            3 => Some("x".repeat(r.usize(1, 255 - k.len() - 1))),
            _ => Some(format!("val{}é", r.below(10))),
        };
        attrs.push((k, v));
    }
    Desc { name: name.to_string(), ips, ports, attrs }
}

/// response packet as `announce` assembles it: answers = records of the instance(s), additional = addresses of SRV targets
fn announce_bytes(records: Vec<ResourceRecord<'static>>, r: &mut Rng) -> Result<Vec<u8>, String> {
    let mut p = Packet::new_reply(r.int(16) as u16);
    let mut recs = records;
    r.shuffle(&mut recs);
    let has_srv = recs.iter().any(|x| matches!(x.rdata, RData::SRV(_)));
    for x in &recs {
        if has_srv && matches!(x.rdata, RData::A(_) | RData::AAAA(_)) && r.bool() {
            p.additional_records.push(x.clone());
        }
    }
    // some address records only in the additional section (as a responder's reply would carry them)
    for x in recs {
        if has_srv && matches!(x.rdata, RData::A(_) | RData::AAAA(_)) && r.chance(1, 4) && p.additional_records.contains(&x) {
            continue;
        }
        p.answers.push(x);
    }
    p.build_bytes_vec_compressed().map_err(|e| format!("{:?}", e))
}

/// The shape of a DNS-SD browse response: the PTR record in the answer section, everything about the instance (SRV,
/// TXT, addresses) in the additional section.
fn browse_bytes(service: &Name<'static>, instance: &Name<'static>, records: Vec<ResourceRecord<'static>>, r: &mut Rng) -> Result<Vec<u8>, String> {
    let mut p = Packet::new_reply(r.int(16) as u16);
    p.answers.push(ResourceRecord::new(service.clone(), CLASS::IN, 4500, RData::PTR(instance.clone().into())));
    let mut recs = records;
    r.shuffle(&mut recs);
    p.additional_records = recs;
    p.build_bytes_vec_compressed().map_err(|e| format!("{:?}", e))
}

fn full_name(inst: &str, service: &str) -> String {
    format!("{}.{}", inst, service)
}

pub fn history(ctx: &mut Ctx, idx: u64) {
    let mut r = ctx.rng("history", idx);
    let services = ["_svc._tcp.local", "_http._tcp.local", "_x.local", "_svc._udp.example.com"];
    let service_s = *r.pick(&services);
    let service = Name::new(service_s).unwrap().into_owned();
    let own_s = full_name("self", service_s);
    let own = Name::new(&own_s).unwrap().into_owned();
    let mode = idx % 4; // 0: sync without channel, 1: sync with channel, 2: tokio with channel, 3: tokio without channel
    let no_channel = mode == 0 || mode == 3;
    let npeers = r.usize(1, 5);
    let inst_names = ["p1", "printer", "office-printer", "_underscore", "UPPER", "a", "x1y2"];
    let mut peers: Vec<Desc> = Vec::new();
    for k in 0..npeers {
        let mut nm = format!("{}{}", inst_names[(idx as usize + k) % inst_names.len()], k);
        // sometimes two peers whose instance names differ only in ASCII case: they are different instances
        if k > 0 && r.chance(1, 6) {
            let other = peers[r.usize(0, k - 1)].name.clone();
            let flipped: String = other.chars().map(|c| if c.is_ascii_lowercase() { c.to_ascii_uppercase() } else { c.to_ascii_lowercase() }).collect();
            if flipped != other && !peers.iter().any(|p: &Desc| p.name == flipped) {
                nm = flipped;
            }
        }
        peers.push(gen_desc(&mut r, &nm));
    }
    let own_desc = gen_desc(&mut r, "self");
    let mut store: ResourceRecordManager<'static> = ResourceRecordManager::new();
    let (tx, rx) = std::sync::mpsc::channel::<InstanceInformation>();
    let mut chan = if mode == 1 { Some(tx) } else { None };
    let (atx, arx) = tokio::sync::mpsc::channel::<InstanceInformation>(64);
    let mut achan = if mode == 2 { Some(atx) } else { None };
    // one history in four with a channel: the application has already dropped its receiving end. The channel then delivers nothing,
    // the store must learn everything all the same (including what the first packet after the hang-up carries)
    let hung_up = !no_channel && (idx / 4) % 4 == 3;
    let (rx, mut arx) = if hung_up { drop(rx); drop(arx); (None, None) } else { (Some(rx), Some(arx)) };
    if hung_up {
        ctx.count("histories_with_a_dropped_on_discovery_receiver");
    }
    let rt = if mode >= 2 { Some(tokio::runtime::Builder::new_current_thread().build().unwrap()) } else { None };
    let mut log: Vec<String> = Vec::new();
    let mut announced: Vec<usize> = Vec::new();
    let mut expected_channel: Vec<InstanceInformation> = Vec::new();
    let steps = r.usize(npeers, npeers + 8);
    // one history in sixteen announces with a TTL of one second (what is announced is still valid when the history is read back a
    // few hundred microseconds later; a history that took longer than 0.4 s is not judged)
    let ttl = if idx % 16 == 5 { 1 } else { 4500 };
    let t_start = std::time::Instant::now();
    let on_wire: std::cell::RefCell<Vec<ResourceRecord<'static>>> = std::cell::RefCell::new(Vec::new());
    let case_log = |log: &Vec<String>| json!({"family": "history", "idx": idx, "service": service_s, "mode": mode, "steps": log});
    for step in 0..steps {
        let kind = if step < npeers { 0 } else { r.below(10) };
        let mut ingest = |bytes: &[u8], store: &mut ResourceRecordManager<'static>, ctx: &mut Ctx, log: &Vec<String>| {
            let res = monitor::guard(|| {
                let pk = Packet::parse(bytes).map_err(|e| format!("{:?}", e))?;
                // everything that crossed the wire, so that a peer's goodbye can name exactly the records it announced
                for rec in pk.answers.iter().chain(pk.additional_records.iter()) {
                    if rec.ttl > 0 {
                        on_wire.borrow_mut().push(rec.clone().into_owned());
                    }
                }
                match mode {
                    2 | 3 => rt.as_ref().unwrap().block_on(simple_mdns::verif_async::add_response_to_resources(pk, &service, &own, store, &mut achan)),
                    _ => add_response_to_resources(pk, &service, &own, store, &mut chan),
                }
                Ok::<(), String>(())
            });
            match res {
                Ok(Ok(())) => {}
                Ok(Err(e)) => ctx.violation("wire-crossing", "announcement-unparseable", format!("announcement packet rejected by the parser: {}", e), case_log(log)),
                Err(pn) => ctx.panic_violation("add_response_to_resources", &pn, case_log(log)),
            }
        };
        match kind {
            0 | 1 | 2 => {
                // a peer announces (first npeers steps: each peer once; later: re-announcements)
                let k = if step < npeers { step } else { r.usize(0, npeers - 1) };
                let fname_s = full_name(&peers[k].name, service_s);
                let fname = Name::new(&fname_s).unwrap().into_owned();
                let info = peers[k].info(r.next());
                let recs = match info.clone().into_records(&fname, ttl) {
                    Ok(v) => v.into_iter().map(|x| x.into_owned()).collect::<Vec<_>>(),
                    Err(e) => {
                        ctx.violation("into-records", "into-records-failed", format!("{:?}", e), case_log(&log));
                        continue;
                    }
                };
                // sometimes the first thing seen of the peer is its goodbye (TTL 0), straight before the announcement
                if no_channel && r.chance(1, 5) {
                    if let Ok(v) = peers[k].info(r.next()).into_records(&fname, 0) {
                        if let Ok(b) = announce_bytes(v.into_iter().map(|x| x.into_owned()).collect(), &mut r) {
                            log.push(format!("peer {} says goodbye (TTL 0)", k));
                            ctx.count("goodbye_straight_before_an_announcement");
                            ingest(&b, &mut store, ctx, &log);
                        }
                    }
                }
                // sometimes the announcing stack pads its TXT record with strings that are not attributes (an empty string, a
                // string that starts with '='), anywhere in the list: RFC 6763 6.4 has them ignored one by one, the attributes
                // around them are the instance's all the same
                let mut recs = recs;
                if r.chance(1, 8) {
                    for rec in recs.iter_mut() {
                        let strings: Vec<Vec<u8>> = match &rec.rdata { RData::TXT(t) => t.verif_strings().iter().map(|x| x.to_vec()).collect(), _ => continue };
                        if !strings.iter().any(|x| !x.is_empty()) {
                            continue;
                        }
                        let at = r.usize(0, strings.len());
                        let filler: &[u8] = if r.bool() { b"" } else { b"=not-an-attribute" };
                        let mut v = simple_dns::rdata::TXT::new();
                        for i in 0..=strings.len() {
                            if i == at {
                                v = v.with_char_string(simple_dns::CharacterString::new(filler).unwrap().into_owned());
                            }
                            if i < strings.len() {
                                v = v.with_char_string(simple_dns::CharacterString::new(&strings[i]).unwrap().into_owned());
                            }
                        }
                        rec.rdata = RData::TXT(v.into_owned());
                        ctx.count("announcements_whose_txt_record_carries_a_keyless_string");
                    }
                }
                let mixed = no_channel && r.chance(1, 6);
                if mixed {
                    let mine: Vec<ResourceRecord<'static>> = own_desc.info(r.next()).into_records(&own, ttl).unwrap().into_iter().map(|x| x.into_owned()).collect();
                    recs.extend(mine);
                    ctx.count("announcements_sharing_a_packet_with_own_records");
                }
                // sometimes the SRV records name a host outside the service as their target (as other mDNS stacks do): the
                // port they carry belongs to the instance all the same
                let foreign_target = r.chance(1, 6);
                if foreign_target {
                    for rec in recs.iter_mut() {
                        if let RData::SRV(srv) = &mut rec.rdata {
                            srv.target = Name::new(&format!("host-{}.local", k)).unwrap().into_owned();
                        }
                    }
                    ctx.count("announcements_with_srv_target_outside_the_service");
                }
                // sometimes the packet has the shape of a browse response (PTR answer, instance records as additionals)
                let browse = !mixed && r.chance(1, 6);
                if browse {
                    ctx.count("announcements_shaped_as_browse_responses");
                }
                log.push(format!("peer {} announces {:?}{}{}{}", k, peers[k], if mixed { " (in one packet with records of the own instance)" } else { "" },
                    if foreign_target { " (SRV targets outside the service)" } else { "" }, if browse { " (browse-response shape)" } else { "" }));
                match if browse { browse_bytes(&service, &fname, recs, &mut r) } else { announce_bytes(recs, &mut r) } {
                    Ok(b) => {
                        ingest(&b, &mut store, ctx, &log);
                        if !announced.contains(&k) {
                            announced.push(k);
                        }
                        expected_channel.push(info);
                    }
                    Err(e) => ctx.violation("wire-crossing", "announcement-unbuildable", e, case_log(&log)),
                }
            }
            3 => {
                // own instance echoed back by the network
                let info = own_desc.info(r.next());
                let recs: Vec<_> = info.into_records(&own, ttl).unwrap().into_iter().map(|x| x.into_owned()).collect();
                log.push("own announcement echoed".into());
                if let Ok(b) = announce_bytes(recs, &mut r) {
                    ingest(&b, &mut store, ctx, &log);
                }
            }
            4 => {
                // records owned by the service name itself (PTR to an instance, and an address)
                let target = Name::new(&full_name("ghost", service_s)).unwrap().into_owned();
                let recs = vec![
                    ResourceRecord::new(service.clone(), CLASS::IN, ttl, RData::PTR(target.into())),
                    ResourceRecord::new(service.clone(), CLASS::IN, ttl, RData::A(simple_dns::rdata::A { address: 0x0A000001 })),
                ];
                log.push("records owned by the service name itself".into());
                if let Ok(b) = announce_bytes(recs, &mut r) {
                    ingest(&b, &mut store, ctx, &log);
                }
            }
            5 | 6 => {
                // foreign names: sibling service, concatenation collision, parent, unrelated
                let labels: Vec<&str> = service_s.split('.').collect();
                let sibling = format!("{}2.{}", labels[0], labels[1..].join("."));
                let collide = format!("x{}.{}", labels[0], labels[1..].join("."));
                let glued = format!("inst{}.{}", labels[0], labels[1..].join(".")); // "inst_svc._tcp.local": same concatenation as inst._svc._tcp.local
                let parent = labels[1..].join(".");
                let foreign = [full_name("inst", &sibling), collide, glued, parent, "unrelated.example.org".to_string(), full_name("deep.er", &sibling)];
                let f = r.pick(&foreign).clone();
                let fname = match Name::new(&f) {
                    Ok(n) => n.into_owned(),
                    Err(_) => continue,
                };
                let d = gen_desc(&mut r, "foreign");
                let recs: Vec<_> = d.info(1).into_records(&fname, ttl).unwrap().into_iter().map(|x| x.into_owned()).collect();
                log.push(format!("foreign traffic owned by {}", f));
                if let Ok(b) = announce_bytes(recs, &mut r) {
                    ingest(&b, &mut store, ctx, &log);
                }
            }
            9 => {
                // one packet carrying records of the discoverer's own instance next to a peer's (an aggregating responder
                // or a proxy sends such packets): the own records are ignored, the peer is discovered
                if no_channel {
                    let k = r.usize(0, npeers - 1);
                    let fname = Name::new(&full_name(&peers[k].name, service_s)).unwrap().into_owned();
                    let mut recs: Vec<ResourceRecord<'static>> = Vec::new();
                    let mine: Vec<_> = own_desc.info(r.next()).into_records(&own, ttl).unwrap().into_iter().map(|x| x.into_owned()).collect();
                    let theirs: Vec<_> = peers[k].info(r.next()).into_records(&fname, ttl).unwrap().into_iter().map(|x| x.into_owned()).collect();
                    if r.bool() { recs.extend(mine); recs.extend(theirs); } else { recs.extend(theirs); recs.extend(mine); }
                    if let Ok(b) = announce_bytes(recs, &mut r) {
                        log.push(format!("one packet carrying the own instance and peer {}: {:?}", k, peers[k]));
                        ctx.count("packets_mixing_own_and_peer_records");
                        ingest(&b, &mut store, ctx, &log);
                        if !announced.contains(&k) {
                            announced.push(k);
                        }
                    }
                }
            }
            8 => {
                // a peer says goodbye (the same records with TTL 0) and then advertises again: it is discovered again
                // (what the channel delivers for a goodbye is not defined by the property: channel-less modes only)
                if no_channel {
                    let k = r.usize(0, npeers - 1);
                    let fname = Name::new(&full_name(&peers[k].name, service_s)).unwrap().into_owned();
                    let mut ok = true;
                    // half of the time the peer comes back with another description (other addresses, ports, attributes):
                    // what is reported afterwards is the new description, nothing of the withdrawn one
                    let changed = r.bool();
                    for t in [0u32, ttl] {
                        if t != 0 && changed {
                            let name = peers[k].name.clone();
                            peers[k] = gen_desc(&mut r, &name);
                            ctx.count("goodbye_then_readvertised_with_another_description");
                        }
                        let recs: Vec<_> = if t == 0 && changed {
                            // the goodbye of a peer that is about to change: every record it has announced so far, with TTL 0
                            let mut v: Vec<ResourceRecord<'static>> = Vec::new();
                            for rec in on_wire.borrow().iter().filter(|x| x.name == fname) {
                                let mut g = rec.clone();
                                g.ttl = 0;
                                g.cache_flush = false;
                                if !v.contains(&g) { v.push(g); }
                            }
                            if v.is_empty() { ok = false; break; }
                            v
                        } else {
                            match peers[k].info(r.next()).into_records(&fname, t) {
                                Ok(v) => v.into_iter().map(|x| x.into_owned()).collect(),
                                Err(_) => { ok = false; break; }
                            }
                        };
                        match announce_bytes(recs, &mut r) {
                            Ok(b) => ingest(&b, &mut store, ctx, &log),
                            Err(_) => { ok = false; break; }
                        }
                    }
                    if ok {
                        log.push(format!("peer {} says goodbye (TTL 0) and advertises again: {:?}", k, peers[k]));
                        ctx.count("goodbye_then_readvertised");
                        if !announced.contains(&k) {
                            announced.push(k);
                        }
                    }
                }
            }
            _ => {
                // one packet carrying two peers' records (channel expectation is not defined for it: skipped)
                if npeers >= 2 && no_channel {
                    let mut recs = Vec::new();
                    for k in [0usize, 1] {
                        let fname = Name::new(&full_name(&peers[k].name, service_s)).unwrap().into_owned();
                        recs.extend(peers[k].info(r.next()).into_records(&fname, ttl).unwrap().into_iter().map(|x| x.into_owned()));
                        if !announced.contains(&k) {
                            announced.push(k);
                        }
                    }
                    log.push("one packet carrying peers 0 and 1".into());
                    if let Ok(b) = announce_bytes(recs, &mut r) {
                        ingest(&b, &mut store, ctx, &log);
                    }
                }
            }
        }
    }
    // read back what discovery would report
    if ttl == 1 {
        ctx.count("histories_announced_with_a_ttl_of_one_second");
    }
    let discovered: Result<Vec<InstanceInformation>, _> = monitor::guard(|| {
        store.get_domain_resources(&service, DomainResourceFilter::cached()).filter_map(|g| from_records(&service, g)).collect()
    });
    ctx.case(!announced.is_empty(), fnv(format!("{:?}", log).as_bytes()));
    ctx.count("histories");
    ctx.add("announcements", expected_channel.len() as u64);
    let discovered = match discovered {
        Ok(d) => d,
        Err(pn) => {
            ctx.panic_violation("get_known_services pipeline", &pn, case_log(&log));
            return;
        }
    };
    if ttl == 1 && t_start.elapsed() > std::time::Duration::from_millis(400) {
        ctx.count("one_second_histories_too_slow_to_judge");
        return;
    }
    let want: Vec<InstanceInformation> = announced.iter().map(|k| peers[*k].info(7)).collect();
    let show = |v: &Vec<InstanceInformation>| v.iter().map(|i| format!("{:?}", i)).collect::<Vec<_>>();
    for d in &discovered {
        if !want.iter().any(|w| w == d) {
            let why = if d.attributes.contains_key("") { "empty-attribute-key" }
                else if d.escaped_instance_name() == "self" { "own-instance-reported" }
                else if !want.iter().any(|w| w.escaped_instance_name() == d.escaped_instance_name()) { "foreign-or-unknown-instance-reported" }
                else if !want.iter().any(|w| w.ip_addresses == d.ip_addresses && w.escaped_instance_name() == d.escaped_instance_name()) { "addresses-differ" }
                else if !want.iter().any(|w| w.ports == d.ports && w.escaped_instance_name() == d.escaped_instance_name()) { "ports-differ" }
                else { "attributes-differ" };
            ctx.violation("discovered-equals-announced", &format!("discovered-differs:{}", why),
                format!("discovered {:?} which no peer announced ({}); announced: {:?}", d, why, show(&want)), case_log(&log));
            return;
        }
    }
    for w in &want {
        if !discovered.iter().any(|d| d == w) {
            ctx.violation("discovered-equals-announced", "announced-instance-missing",
                format!("announced instance {:?} is not discovered; discovered: {:?}", w, show(&discovered)), case_log(&log));
            return;
        }
    }
    if discovered.len() != want.len() {
        ctx.violation("discovered-equals-announced", "discovered-count-differs", format!("{} discovered vs {} announced", discovered.len(), want.len()), case_log(&log));
        return;
    }
    ctx.add("instances_discovered_faithfully", discovered.len() as u64);
    // channel values
    if (mode == 1 || mode == 2) && !hung_up {
        let mut got: Vec<InstanceInformation> = Vec::new();
        if mode == 1 {
            drop(chan);
            while let Some(Ok(i)) = rx.as_ref().map(|rx| rx.try_recv()) {
                got.push(i);
            }
        } else {
            drop(achan);
            while let Some(Ok(i)) = arx.as_mut().map(|arx| arx.try_recv()) {
                got.push(i);
            }
        }
        if got != expected_channel {
            let why = if got.len() != expected_channel.len() { "count" } else if got.iter().any(|g| g.attributes.contains_key("")) { "empty-attribute-key" } else { "content" };
            ctx.violation("channel-values", &format!("on-discovery-values-differ:{}:{}", if mode == 1 { "sync" } else { "tokio" }, why),
                format!("on_discovery delivered {:?}, announcements were {:?}", show(&got), show(&expected_channel)), case_log(&log));
        } else {
            ctx.add("channel_values_equal", got.len() as u64);
        }
    }
    ctx.sample("history", || json!({"service": service_s, "steps": log}));
}

fn escape_roundtrip(ctx: &mut Ctx, family: &str, idx: u64, s: &str) {
    let r = monitor::guard(|| {
        let e = InstanceInformation::new(s.to_string()).escaped_instance_name();
        let u = InstanceInformation::new(e.clone()).unescaped_instance_name();
        (e, u)
    });
    ctx.case(s.contains('.') || s.contains('\\'), fnv(s.as_bytes()));
    match r {
        Err(pn) => ctx.panic_violation("escape/unescape", &pn, json!({"family": family, "idx": idx, "string": s})),
        Ok((e, u)) => {
            if u != s {
                ctx.violation("escape-roundtrip", "escape-unescape-differs", format!("{:?} escaped to {:?} unescaped to {:?}", s, e, u), json!({"family": family, "idx": idx, "string": s}));
            } else {
                ctx.count("escape_roundtrips_equal");
            }
        }
    }
}

/// the public conversion helpers and InstanceInformation builders used to assemble announcements
fn helper_case(ctx: &mut Ctx, idx: u64) {
    use simple_mdns::conversion_utils::{hashmap_to_txt, ip_addr_to_resource_record, port_to_srv_record, socket_addr_to_srv_and_address};
    let mut r = ctx.rng("helpers", idx);
    let name = Name::new("inst._svc._tcp.local").unwrap();
    let ip: IpAddr = if r.bool() { IpAddr::V4(Ipv4Addr::new(r.u8(), r.u8(), r.u8(), r.u8())) } else { IpAddr::V6(Ipv6Addr::from(((r.next() as u128) << 64) | r.next() as u128)) };
    let port = r.int(16) as u16;
    let ttl = r.int(32) as u32;
    ctx.case(true, fnv(format!("{:?}{}{}", ip, port, ttl).as_bytes()) ^ 0x15AA);
    let case = || json!({"family": "helpers", "idx": idx, "ip": ip.to_string(), "port": port, "ttl": ttl});
    let res = monitor::guard(|| {
        let a = ip_addr_to_resource_record(&name, ip, ttl);
        let s = port_to_srv_record(&name, port, ttl);
        let (s2, a2) = socket_addr_to_srv_and_address(&name, std::net::SocketAddr::new(ip, port), ttl);
        let mut attrs = HashMap::new();
        attrs.insert("k".to_string(), Some(format!("v{}", port)));
        attrs.insert("flag".to_string(), None);
        let t = hashmap_to_txt(&name, attrs.clone(), ttl).map_err(|e| e.to_string())?;
        let info = InstanceInformation::new("inst".into()).with_socket_address(std::net::SocketAddr::new(ip, port)).with_port(port.wrapping_add(1));
        let socks: HashSet<std::net::SocketAddr> = info.get_socket_addresses().collect();
        let want_socks: HashSet<std::net::SocketAddr> = [std::net::SocketAddr::new(ip, port), std::net::SocketAddr::new(ip, port.wrapping_add(1))].into_iter().collect();
        let mut probs: Vec<&str> = Vec::new();
        let addr_ok = |rr: &ResourceRecord| match (&rr.rdata, ip) {
            (RData::A(x), IpAddr::V4(v4)) => x.address == u32::from_be_bytes(v4.octets()),
            (RData::AAAA(x), IpAddr::V6(v6)) => x.address == u128::from_be_bytes(v6.octets()),
            _ => false,
        };
        let srv_ok = |rr: &ResourceRecord| matches!(&rr.rdata, RData::SRV(x) if x.port == port && x.priority == 0 && x.weight == 0 && x.target == name);
        for rr in [&a, &a2] {
            if !(addr_ok(rr) && rr.name == name && rr.class == CLASS::IN && rr.ttl == ttl && !rr.cache_flush) { probs.push("address-record"); }
        }
        for rr in [&s, &s2] {
            if !(srv_ok(rr) && rr.name == name && rr.class == CLASS::IN && rr.ttl == ttl) { probs.push("srv-record"); }
        }
        match &t.rdata {
            RData::TXT(x) if x.attributes() == attrs && t.name == name && t.ttl == ttl => {}
            _ => probs.push("txt-record"),
        }
        if socks != want_socks { probs.push("socket-addresses"); }
        Ok::<Vec<&str>, String>(probs)
    });
    match res {
        Err(pn) => ctx.panic_violation("conversion helpers", &pn, case()),
        Ok(Err(e)) => ctx.violation("into-records", "conversion-helper-failed", e, case()),
        Ok(Ok(probs)) => {
            if let Some(pb) = probs.first() {
                ctx.violation("into-records", &format!("conversion-helper-wrong:{}", pb), format!("conversion helper produced a wrong record: {:?}", probs), case());
            } else {
                ctx.count("conversion_helper_cases_ok");
            }
        }
    }
}

/// Real services on loopback multicast: two ServiceDiscovery instances of the same (unique) service must report each other
/// exactly. This is the only family that goes through the real `announce()`, the real receive loops and `get_known_services()`.
/// A passive listener on the mDNS group, used only as a witness: which response datagrams carrying records of a given
/// instance were on the wire during a live round.
pub fn open_tap() -> Option<std::net::UdpSocket> {
    use std::os::fd::FromRawFd;
    unsafe {
        let fd = libc::socket(libc::AF_INET, libc::SOCK_DGRAM | libc::SOCK_CLOEXEC, 0);
        if fd < 0 {
            return None;
        }
        let one: libc::c_int = 1;
        let sz = std::mem::size_of::<libc::c_int>() as libc::socklen_t;
        libc::setsockopt(fd, libc::SOL_SOCKET, libc::SO_REUSEADDR, &one as *const _ as *const libc::c_void, sz);
        libc::setsockopt(fd, libc::SOL_SOCKET, libc::SO_REUSEPORT, &one as *const _ as *const libc::c_void, sz);
        let big: libc::c_int = 4 << 20;
        libc::setsockopt(fd, libc::SOL_SOCKET, libc::SO_RCVBUF, &big as *const _ as *const libc::c_void, sz);
        let mut addr: libc::sockaddr_in = std::mem::zeroed();
        addr.sin_family = libc::AF_INET as libc::sa_family_t;
        addr.sin_port = 5353u16.to_be();
        addr.sin_addr = libc::in_addr { s_addr: u32::from(Ipv4Addr::new(224, 0, 0, 251)).to_be() };
        if libc::bind(fd, &addr as *const _ as *const libc::sockaddr, std::mem::size_of::<libc::sockaddr_in>() as libc::socklen_t) != 0 {
            libc::close(fd);
            return None;
        }
        let sock = std::net::UdpSocket::from_raw_fd(fd);
        sock.join_multicast_v4(&Ipv4Addr::new(224, 0, 0, 251), &Ipv4Addr::UNSPECIFIED).ok()?;
        sock.set_nonblocking(true).ok()?;
        Some(sock)
    }
}

/// Drain the tap; returns how many response datagrams carried a record owned by `<first>.<svc>` / `<second>.<svc>`
/// (decoded with the independent reader, so that compression pointers are followed).
fn drain_tap(tap: &Option<std::net::UdpSocket>, svc_label: &[u8], first: &[u8], second: &[u8]) -> (u64, u64) {
    let mut n = (0u64, 0u64);
    let Some(sock) = tap else { return n };
    let mut buf = [0u8; 9000];
    while let Ok((len, _)) = sock.recv_from(&mut buf) {
        let d = &buf[..len];
        if len < 12 || d[2] & 0x80 == 0 {
            continue;
        }
        let Ok(env) = decode_envelope(d) else { continue };
        let owns = |who: &[u8]| env.secs.iter().flatten().any(|r| r.name.labels.len() >= 2 && r.name.labels[0] == who && r.name.labels[1] == svc_label);
        if owns(first) {
            n.0 += 1;
        }
        if owns(second) {
            n.1 += 1;
        }
    }
    n
}

fn live(ctx: &mut Ctx) {
    use simple_mdns::{async_discovery, sync_discovery};
    let pid = std::process::id();
    let rounds = ctx.tier.pick(24u64, 240u64);
    let rt = tokio::runtime::Builder::new_multi_thread().worker_threads(2).enable_all().build().unwrap();
    let tap = open_tap();
    if tap.is_none() {
        ctx.notes.push("live discovery: the witness socket on the mDNS group could not be opened; rounds in which a peer reports nothing stay inconclusive".into());
    }
    // consecutive rounds in which a listener of that kind reported nothing although the witness saw the other peer's
    // announcements on the wire at least twice
    let mut silent_streak: HashMap<&'static str, (u64, Vec<u64>)> = HashMap::new();
    // one round in three runs over IPv6 (NetworkScope::V6, group ff02::fb) where the host has IPv6 multicast; such rounds have no
    // witness socket, so they can only report wrong content, never silence, and an incomplete one is a note
    let v6_ok = std::env::var_os("VERIF_C15_NO_V6").is_none() && monitor::guard(|| {
        sync_discovery::ServiceDiscovery::new_with_scope(InstanceInformation::new("probe".into()).with_port(1), &format!("_l6p{}._tcp.local", pid), 1, None, simple_mdns::NetworkScope::V6)
            .map(|mut s| s.remove_service_from_discovery()).is_ok()
    }).unwrap_or(false);
    if !v6_ok {
        ctx.notes.push("live discovery: no IPv6 multicast on this host, all rounds run over IPv4".into());
    }
    for k in 0..rounds {
        if ctx.time_up() {
            break;
        }
        let mut r = ctx.rng("live", k);
        let svc_label = format!("_l{}x{}", k, pid);
        let svc = format!("{}._tcp.local", svc_label);
        let d1 = gen_desc(&mut r, "one");
        let d2 = gen_desc(&mut r, "two");
        let tokio_side = k % 2 == 1;
        let v6 = v6_ok && k % 6 >= 4;
        let scope = if v6 { simple_mdns::NetworkScope::V6 } else { simple_mdns::NetworkScope::V4 };
        ctx.count(if v6 { "live_rounds_over_ipv6" } else { "live_rounds_over_ipv4" });
        ctx.case(true, fnv(format!("live{:?}{:?}{}", d1, d2, tokio_side).as_bytes()));
        let case = || json!({"family": "live", "idx": k, "service": svc, "first": format!("{:?}", d1), "second": format!("{:?}", d2), "second_is_tokio": tokio_side});
        let started = monitor::guard(|| {
            let s1 = sync_discovery::ServiceDiscovery::new_with_scope(d1.info(1), &svc, 60, None, scope).map_err(|e| e.to_string())?;
            std::thread::sleep(std::time::Duration::from_millis(50));
            let s2 = if tokio_side {
                let _g = rt.enter();
                Err(async_discovery::ServiceDiscovery::new_with_scope(d2.info(2), &svc, 60, None, scope).map_err(|e| e.to_string())?)
            } else {
                Ok(sync_discovery::ServiceDiscovery::new_with_scope(d2.info(2), &svc, 60, None, scope).map_err(|e| e.to_string())?)
            };
            Ok::<_, String>((s1, s2))
        });
        let (mut s1, mut s2) = match started {
            Ok(Ok(x)) => x,
            Ok(Err(e)) => {
                ctx.notes.push(format!("live discovery skipped: services could not start: {}", e));
                ctx.count("live_rounds_skipped");
                return;
            }
            Err(pn) => {
                ctx.panic_violation("starting ServiceDiscovery", &pn, case());
                return;
            }
        };
        // witness counts: (datagrams of the first peer seen while the second was listening, datagrams of the second peer)
        let (n1, n2) = (d1.name.as_bytes().to_vec(), d2.name.as_bytes().to_vec());
        let mut on_wire = (0u64, 0u64);
        // the first peer listens from before the second one exists: everything the second sent counts; what the first
        // sent before this point may predate the second peer's listener and does not
        on_wire.1 += drain_tap(&tap, svc_label.as_bytes(), &n1, &n2).1;
        let want1: HashSet<InstanceInformation> = [d2.info(3)].into_iter().collect();
        let want2: HashSet<InstanceInformation> = [d1.info(4)].into_iter().collect();
        let observe = |s1: &sync_discovery::ServiceDiscovery, s2: &Result<sync_discovery::ServiceDiscovery, async_discovery::ServiceDiscovery>| {
            let k1 = s1.get_known_services();
            let k2 = match s2 {
                Ok(s) => s.get_known_services(),
                Err(a) => rt.block_on(a.get_known_services()),
            };
            (k1, k2)
        };
        let mut seen = (HashSet::new(), HashSet::new());
        let mut ok = false;
        for phase in 0..3 {
            let deadline = std::time::Instant::now() + std::time::Duration::from_millis(if phase == 0 { 3000 } else { 1500 });
            while std::time::Instant::now() < deadline {
                match monitor::guard(|| observe(&s1, &s2)) {
                    Ok(o) => seen = o,
                    Err(pn) => {
                        ctx.panic_violation("get_known_services", &pn, case());
                        return;
                    }
                }
                // equality of sets of InstanceInformation (element-wise ==, hashing is C16's subject)
                let eq = |a: &HashSet<InstanceInformation>, b: &HashSet<InstanceInformation>| a.len() == b.len() && a.iter().all(|x| b.iter().any(|y| x == y));
                if eq(&seen.0, &want1) && eq(&seen.1, &want2) {
                    ok = true;
                    break;
                }
                let seen_now = drain_tap(&tap, svc_label.as_bytes(), &n1, &n2);
                on_wire.0 += seen_now.0;
                on_wire.1 += seen_now.1;
                std::thread::sleep(std::time::Duration::from_millis(40));
            }
            if ok {
                break;
            }
            // second chance against a lost datagram: announce again through the public API
            s1.announce(false);
            match &mut s2 {
                Ok(s) => s.announce(false),
                Err(a) => { let _ = rt.block_on(a.announce(false)); }
            }
        }
        let seen_now = drain_tap(&tap, svc_label.as_bytes(), &n1, &n2);
        on_wire.0 += seen_now.0;
        on_wire.1 += seen_now.1;
        ctx.add("live_witnessed_response_datagrams", on_wire.0 + on_wire.1);
        // silent listeners: the first peer is always the std one, the second alternates
        let kinds: [(&'static str, bool, u64); 2] = [
            ("first peer (std listener)", seen.0.is_empty(), on_wire.1),
            (if tokio_side { "second peer (tokio listener)" } else { "second peer (std listener)" }, seen.1.is_empty(), on_wire.0),
        ];
        let mut silent_violation = false;
        for (kind, reported_nothing, witnessed) in kinds {
            if v6 {
                break;
            }
            let e = silent_streak.entry(kind).or_insert((0, Vec::new()));
            if !reported_nothing {
                // this listener demonstrably ingested a response
                *e = (0, Vec::new());
            } else if witnessed >= 2 {
                e.0 += 1;
                e.1.push(witnessed);
                if e.0 >= 3 && !silent_violation {
                    ctx.violation("discovered-equals-announced", &format!("live-discovery-silent:{}", if kind.contains("tokio") { "tokio-listener" } else { "std-listener" }),
                        format!("in {} consecutive live rounds with that pairing the {} reported no instance at all although the witness socket saw the other peer's response datagrams on the wire ({:?} per round)", e.0, kind, e.1), case());
                    silent_violation = true;
                }
            }
        }
        if silent_violation {
            monitor::guard(|| {
                s1.remove_service_from_discovery();
                match &mut s2 {
                    Ok(s) => s.remove_service_from_discovery(),
                    Err(a) => rt.block_on(a.remove_service_from_discovery()),
                }
            }).ok();
            break;
        }
        // ---- the second peer withdraws (the library's own goodbye: its records with the cache-flush bit) and a peer of the same
        // name comes back with another description: what is reported then is the new description, nothing of the old one
        let redo_every = ctx.tier.pick(12u64, 6u64);
        if ok && !v6 && !tokio_side && k % redo_every == 2 {
            let d3 = gen_desc(&mut r, &d2.name);
            let want_new: HashSet<InstanceInformation> = [d3.info(7)].into_iter().collect();
            let redo = monitor::guard(|| {
                if let Ok(s) = &mut s2 { s.remove_service_from_discovery(); }
                std::thread::sleep(std::time::Duration::from_millis(1300));
                let s3 = sync_discovery::ServiceDiscovery::new_with_scope(d3.info(8), &svc, 60, None, scope).map_err(|e| e.to_string())?;
                let deadline = std::time::Instant::now() + std::time::Duration::from_secs(5);
                let mut last = HashSet::new();
                while std::time::Instant::now() < deadline {
                    last = s1.get_known_services();
                    if last.len() == want_new.len() && last.iter().all(|x| want_new.iter().any(|y| x == y)) {
                        break;
                    }
                    std::thread::sleep(std::time::Duration::from_millis(60));
                    if std::time::Instant::now() + std::time::Duration::from_secs(3) > deadline && last.is_empty() {
                        s3.announce(false);
                    }
                }
                let mut s3 = s3;
                s3.remove_service_from_discovery();
                Ok::<_, String>(last)
            });
            match redo {
                Err(pn) => ctx.panic_violation("goodbye and re-advertisement of a live peer", &pn, case()),
                Ok(Err(e)) => ctx.notes.push(format!("live discovery round {}: the re-advertising peer could not start: {}", k, e)),
                Ok(Ok(last)) => {
                    let exact = last.len() == want_new.len() && last.iter().all(|x| want_new.iter().any(|y| x == y));
                    if exact {
                        ctx.count("live_goodbye_then_another_description_reported_exactly");
                    } else if last.is_empty() {
                        ctx.count("live_goodbye_rounds_incomplete_(nothing_reported)");
                        ctx.notes.push(format!("live discovery round {}: after goodbye and re-advertisement nothing was reported within 5 s (datagram loss?)", k));
                    } else {
                        ctx.violation("discovered-equals-announced", "live-rediscovery-differs",
                            format!("a peer said goodbye and a peer of the same name advertised {:?}; 5 s later the first instance still reports {:?} (the withdrawn description was {:?})", want_new, last, want1), case());
                    }
                }
            }
        }
        if ok {
            ctx.count("live_pairs_discovered_each_other_exactly");
        } else {
            let wrong = |seen: &HashSet<InstanceInformation>, want: &HashSet<InstanceInformation>| seen.iter().any(|x| !want.iter().any(|w| w == x));
            if wrong(&seen.0, &want1) || wrong(&seen.1, &want2) {
                ctx.violation("discovered-equals-announced", "live-discovery-differs",
                    format!("two real ServiceDiscovery instances: first knows {:?} (wanted {:?}); second knows {:?} (wanted {:?})", seen.0, want1, seen.1, want2), case());
            } else if v6 {
                ctx.count("live_ipv6_rounds_incomplete_(no_wrong_content)");
                ctx.notes.push(format!("live discovery round {} over IPv6: peers did not (fully) discover each other within the time allowed, nothing wrong was reported", k));
            } else {
                ctx.count("live_rounds_incomplete_(no_wrong_content)");
                ctx.inconclusive.push(format!("live discovery round {}: peers did not (fully) discover each other within the time allowed, nothing wrong was reported", k));
            }
        }
        monitor::guard(|| {
            s1.remove_service_from_discovery();
            match &mut s2 {
                Ok(s) => s.remove_service_from_discovery(),
                Err(a) => rt.block_on(a.remove_service_from_discovery()),
            }
        }).ok();
    }
    for fp in monitor::take_foreign_panics() {
        let loc = monitor::short_loc(&fp.location);
        ctx.violation("discovered-equals-announced", &format!("service-thread-panic@{}", loc), format!("a service thread panicked during live discovery: {}", fp.message), json!({"family": "live", "idx": 0}));
    }
    super::common::report_lock_discipline(ctx, "discovered-equals-announced", "live");
    rt.shutdown_timeout(std::time::Duration::from_millis(200));
}

pub fn run(ctx: &mut Ctx) {
    if let Some(tape) = ctx.tape_case() {
        // replay of a case found by the coverage-guided `model` target: the tape drives every generator decision
        super::model_case("C15", ctx, &tape);
        return;
    }
    if ctx.shard == 0 && !ctx.slow_tool && !cfg!(miri) && ctx.family_active("live") && std::env::var_os("VERIF_C15_NO_LIVE").is_none() {
        live(ctx);
    }
    let nhp = if ctx.slow_tool { 6 } else { ctx.tier.pick(20_000u64, 500_000u64) };
    for idx in 0..nhp {
        if ctx.take("helpers", idx) {
            helper_case(ctx, idx);
        }
    }
    let n = if ctx.slow_tool { 12 } else { ctx.tier.pick(40_000u64, 2_000_000u64) };
    for idx in 0..n {
        if ctx.take("history", idx) {
            if ctx.stop("history") {
                break;
            }
            history(ctx, idx);
        }
    }
    if ctx.family_active("escape") {
        let alpha = ['a', '.', '\\', 'é', ' '];
        let lmax = if ctx.slow_tool { 2 } else { ctx.tier.pick(7usize, 8usize) };
        let mut base = 0u64;
        for l in 0..=lmax {
            let total = 5u64.pow(l as u32);
            for k in 0..total {
                let idx = base + k;
                if !ctx.take("escape", idx) {
                    continue;
                }
                let s: String = digits(k, 5, l).into_iter().map(|d| alpha[d]).collect();
                escape_roundtrip(ctx, "escape", idx, &s);
            }
            base += total;
        }
        ctx.sample("escape", || json!({"alphabet": "a . \\ é space", "max_len": lmax}));
    }
    let nr = if ctx.slow_tool { 10 } else { ctx.tier.pick(100_000u64, 5_000_000u64) };
    for idx in 0..nr {
        if !ctx.take("escape-random", idx) {
            continue;
        }
        if ctx.stop("escape-random") {
            break;
        }
        let mut r = ctx.rng("escape-random", idx);
        let l = r.usize(0, 30);
        let s: String = (0..l).map(|_| match r.below(6) {
            0 => '.',
            1 => '\\',
            2 => char::from_u32(r.range(0x80, 0x2FFF) as u32).unwrap_or('x'),
            3 => char::from_u32(r.range(0x1F300, 0x1F6FF) as u32).unwrap_or('y'),
            _ => (b' ' + r.below(95) as u8) as char,
        }).collect();
        escape_roundtrip(ctx, "escape-random", idx, &s);
    }
    let _ = (HashMap::<u8, u8>::new(), HashSet::<u8>::new(), bridge::lib_flags(0), hex(&[]));
}
