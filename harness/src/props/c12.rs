//! C12 – inspecting parsed data never panics.

use super::c01::{corpus_msg, havoc};
use crate::ctx::*;
use crate::gen::{Cfg, Gen, HOSTILE_BYTES};
use crate::model::*;
use crate::monitor;
use crate::refdns::*;
use crate::rng::Rng;
use serde_json::json;
use simple_dns::rdata::RData;
use simple_dns::{Name, Packet, ResourceRecord};
use std::collections::hash_map::DefaultHasher;
use std::convert::TryFrom;
use std::hash::{Hash, Hasher};

pub fn meta() -> Meta {
    Meta {
        rule: "parser-accepted inputs whose labels and character-strings are drawn from a hostile byte distribution (invalid UTF-8 of every class, NUL, dots, \
backslashes, empty, maximal) in every name- and string-bearing field of every type, every string of up to 4 (quick) / 5 (thorough) bytes over {k = \" \\ ; space NUL C3 A9 FF} as the strings of TXT and HINFO records, plus accepted C01 corpus/havoc cases; every public observer is applied to \
every part under the panic recorder: {:?}/{:#?}/{} formatting of Packet, Question, ResourceRecord, RData, Name, Label, CharacterString; clone; into_owned; \
Hash; ==; TXT::attributes / long_attributes / String::try_from; String::try_from(CharacterString); match_qtype/match_qclass of every record against every \
question; is_subdomain_of / without / is_link_local / get_labels / iter / len on name pairs; family vocab-names: the same on hand-assembled responses whose names are 1..4 labels drawn from the labels real zones use (local, arpa, in-addr, ip6, _tcp, _services, _dns-sd, b, db, lb, ...). non-trivial = accepted input containing at least one non-UTF-8 \
or control byte in a label or string; distinct = hash of bytes",
        assumptions: &["what the rendering looks like is free; only panics are judged"],
        exhaustive: false,
        min_distinct: 1000,
    }
}

fn h<T: Hash>(t: &T) -> u64 {
    let mut s = DefaultHasher::new();
    t.hash(&mut s);
    s.finish()
}

fn obs<T>(ctx: &mut Ctx, name: &str, case: &dyn Fn() -> serde_json::Value, f: impl FnOnce() -> T) {
    ctx.add("observer_calls", 1);
    if let Err(p) = monitor::guard(f) {
        let loc = monitor::short_loc(&p.location);
        ctx.violation(
            "never-panics",
            &format!("panic@{}", loc),
            format!("observer `{}` panicked at {}: {}", name, loc, p.message),
            case(),
        );
    }
}

fn names_of<'a, 'b>(p: &'b Packet<'a>) -> Vec<&'b Name<'a>> {
    let mut v: Vec<&Name> = p.questions.iter().map(|q| &q.qname).collect();
    for r in p.answers.iter().chain(p.name_servers.iter()).chain(p.additional_records.iter()) {
        v.push(&r.name);
        match &r.rdata {
            RData::NS(n) => v.push(&n.0),
            RData::CNAME(n) => v.push(&n.0),
            RData::PTR(n) => v.push(&n.0),
            RData::MX(m) => v.push(&m.exchange),
            RData::SOA(s) => {
                v.push(&s.mname);
                v.push(&s.rname)
            }
            RData::SRV(s) => v.push(&s.target),
            RData::RRSIG(s) => v.push(&s.signer_name),
            RData::NSEC(s) => v.push(&s.next_name),
            RData::SVCB(s) => v.push(&s.target),
            RData::NAPTR(s) => v.push(&s.replacement),
            _ => {}
        }
    }
    v
}

pub fn observe_all(ctx: &mut Ctx, family: &str, idx: u64, b: &[u8]) -> bool {
    let case = || case_bytes_json(family, idx, b);
    let p = match monitor::guard(|| Packet::parse(b)) {
        Ok(Ok(p)) => p,
        _ => {
            ctx.case(false, 0);
            return false;
        }
    };
    let hostile = {
        let o = crate::bridge::observe(&p);
        let bad = |v: &[u8]| std::str::from_utf8(v).is_err() || v.iter().any(|c| *c < 0x20 || *c == 0x7F);
        let name_bad = |n: &NameM| n.iter().any(|l| bad(l));
        let rd_bad = |rd: &Rd| match rd {
            Rd::Fields(fs) => fs.iter().any(|f| match f {
                F::Bytes(v) => bad(v),
                F::Name(n) => name_bad(n),
                F::List(l) => l.iter().any(|s| bad(s)),
                _ => false,
            }),
            _ => false,
        };
        o.qs.iter().any(|q| name_bad(&q.name)) || o.secs.iter().flatten().any(|r| name_bad(&r.name) || rd_bad(&r.rd))
    };
    ctx.case_bytes(hostile, b);
    ctx.count("accepted_inputs");
    obs(ctx, "format!(\"{:?}\", packet)", &case, || format!("{:?}", p));
    obs(ctx, "format!(\"{:#?}\", packet)", &case, || format!("{:#?}", p));
    obs(ctx, "packet.clone()", &case, || p.clone());
    for q in &p.questions {
        obs(ctx, "format!(\"{:?}\", question)", &case, || format!("{:?}", q));
        obs(ctx, "question.clone().into_owned()", &case, || q.clone().into_owned());
    }
    let recs: Vec<&ResourceRecord> = p.answers.iter().chain(p.name_servers.iter()).chain(p.additional_records.iter()).collect();
    for r in &recs {
        obs(ctx, "format!(\"{:?}\", record)", &case, || format!("{:?}", r));
        obs(ctx, "format!(\"{:?}\", rdata)", &case, || format!("{:?}", r.rdata));
        obs(ctx, "record.clone().into_owned()", &case, || (*r).clone().into_owned());
        obs(ctx, "rdata.clone().into_owned()", &case, || r.rdata.clone().into_owned());
        obs(ctx, "hash(record)", &case, || h(*r));
        obs(ctx, "hash(rdata)", &case, || h(&r.rdata));
        obs(ctx, "record == record", &case, || **r == (*r).clone());
        obs(ctx, "rdata == rdata", &case, || r.rdata == r.rdata.clone());
        obs(ctx, "rdata.type_code()", &case, || r.rdata.type_code());
        for q in &p.questions {
            obs(ctx, "record.match_qtype(question)", &case, || r.match_qtype(q.qtype));
            obs(ctx, "record.match_qclass(question)", &case, || r.match_qclass(q.qclass));
        }
        match &r.rdata {
            RData::TXT(t) => {
                obs(ctx, "TXT::attributes", &case, || t.attributes());
                obs(ctx, "TXT::long_attributes", &case, || t.clone().long_attributes().is_ok());
                obs(ctx, "String::try_from(TXT)", &case, || String::try_from(t.clone()).is_ok());
            }
            RData::HINFO(x) => {
                obs(ctx, "format!(\"{}\", character_string)", &case, || format!("{}{}", x.cpu, x.os));
                obs(ctx, "format!(\"{:?}\", character_string)", &case, || format!("{:?}", x.cpu));
                obs(ctx, "String::try_from(CharacterString)", &case, || String::try_from(x.cpu.clone()).is_ok());
                obs(ctx, "hash(character_string)", &case, || h(&x.os));
                obs(ctx, "character_string == character_string", &case, || x.cpu == x.os);
                obs(ctx, "character_string.into_owned()", &case, || x.cpu.clone().into_owned());
            }
            RData::ISDN(x) => obs(ctx, "format!(\"{}\", character_string)", &case, || format!("{}{}", x.address, x.sa)),
            RData::NAPTR(x) => obs(ctx, "format!(\"{}\", character_string)", &case, || format!("{}{}{}", x.flags, x.services, x.regexp)),
            RData::CAA(x) => obs(ctx, "format!(\"{}\", character_string)", &case, || format!("{}", x.tag)),
            RData::SVCB(s) => obs(ctx, "SVCB::iter_params/get_param", &case, || s.iter_params().map(|(k, v)| (k, v.len(), s.get_param(k).is_some())).count()),
            RData::OPT(_) | _ => {}
        }
    }
    if let Some(o) = p.opt() {
        obs(ctx, "format!(\"{:?}\", opt)", &case, || format!("{:?}", o));
        obs(ctx, "opt.clone().into_owned()", &case, || o.clone().into_owned());
    }
    let names = names_of(&p);
    for (i, n) in names.iter().enumerate() {
        obs(ctx, "format!(\"{}\", name)", &case, || format!("{}", n));
        obs(ctx, "name.to_string()", &case, || n.to_string());
        obs(ctx, "format!(\"{:?}\", name)", &case, || format!("{:?}", n));
        obs(ctx, "name.clone().into_owned()", &case, || (*n).clone().into_owned());
        obs(ctx, "hash(name)", &case, || h(*n));
        obs(ctx, "name.is_link_local()", &case, || n.is_link_local());
        obs(ctx, "name.get_labels()/iter()", &case, || n.get_labels().len() + n.iter().count());
        for l in n.get_labels() {
            obs(ctx, "format!(\"{}\", label)", &case, || format!("{}", l));
            obs(ctx, "label.to_string()", &case, || l.to_string());
            obs(ctx, "format!(\"{:?}\", label)", &case, || format!("{:?}", l));
            obs(ctx, "hash(label)/len/is_empty/clone/into_owned", &case, || (h(l), l.len(), l.is_empty(), l.clone().into_owned() == *l));
        }
        let m = names[(i + 1) % names.len()];
        obs(ctx, "name == name", &case, || n == &m);
        obs(ctx, "name.is_subdomain_of(other)", &case, || n.is_subdomain_of(m));
        obs(ctx, "name.without(other)", &case, || n.without(m).map(|x| x.to_string()));
    }
    true
}

/// reference message whose every label/string is hostile
pub fn hostile_msg(seed: u64, idx: u64) -> Vec<u8> {
    let mut r = Rng::for_case(seed, "c12-hostile", idx);
    let code = TYPED_CODES[(idx % 40) as usize];
    let mut g = Gen::new(&mut r, Cfg { share: 30, max_entries: 2, max_rest: 10, edns: 10, binary_labels: true, ..Default::default() });
    let mut p = g.packet();
    if code != 41 {
        let rec = g.record_of(code);
        p.secs[(idx % 3) as usize].push(rec);
    }
    if p.qs.is_empty() {
        let q = g.question();
        p.qs.push(q);
    }
    // force hostile content into every string / label with high probability
    let hostile = |r: &mut Rng, v: &mut Vec<u8>, max: usize| {
        if r.chance(2, 3) {
            let hb: &[u8] = *r.pick(&HOSTILE_BYTES);
            let at = if v.is_empty() { 0 } else { r.usize(0, v.len()) };
            for (k, x) in hb.iter().enumerate() {
                v.insert(at + k, *x);
            }
            v.truncate(max);
            if v.is_empty() && max > 0 {
                v.push(0xFF);
            }
        }
    };
    let mut rr = Rng::for_case(seed, "c12-hostile-mut", idx);
    // attribute-shaped TXT text in valid UTF-8 with multi-byte characters around '=' and ';' (the text
    // conversions only go past their UTF-8 check for such content)
    if idx % 3 == 0 {
        const PIECES: [&str; 14] = ["a", "k", "=", ";", "é", "ключ", "€", "😀", "\u{013B}", "\u{013D}", " ", "v1", "==", ";;"];
        let n = rr.usize(1, 4);
        let strings: Vec<Vec<u8>> = (0..n).map(|_| {
            let mut t = String::new();
            for _ in 0..rr.usize(0, 9) {
                let pc: &str = *rr.pick(&PIECES);
                t.push_str(pc);
            }
            let mut b = t.into_bytes();
            b.truncate(255);
            while std::str::from_utf8(&b).is_err() { b.pop(); }
            b
        }).collect();
        p.secs[(idx % 2) as usize * 2].push(RecSem { name: vec![b"txt".to_vec(), b"local".to_vec()], rtype: 16, class: 1, flush: false, ttl: 120, rd: Rd::Fields(vec![F::List(strings)]) });
    }
    for q in p.qs.iter_mut() {
        for l in q.name.iter_mut() {
            hostile(&mut rr, l, 63);
        }
    }
    for s in p.secs.iter_mut() {
        for rec in s.iter_mut() {
            for l in rec.name.iter_mut() {
                hostile(&mut rr, l, 63);
            }
            if let Rd::Fields(fs) = &mut rec.rd {
                let sch = schema(rec.rtype).unwrap();
                for (k, f) in sch.iter().zip(fs.iter_mut()) {
                    match (k, f) {
                        (K::Str, F::Bytes(v)) => hostile(&mut rr, v, 255),
                        (K::Strs, F::List(l)) => {
                            for v in l.iter_mut() {
                                hostile(&mut rr, v, 255)
                            }
                        }
                        (K::Name(_), F::Name(n)) => {
                            for l in n.iter_mut() {
                                hostile(&mut rr, l, 63)
                            }
                        }
                        _ => {}
                    }
                }
            }
        }
    }
    // names may have grown beyond 255: trim
    let fit = |n: &mut NameM| {
        while name_wire_len(n) > 255 {
            n.remove(0);
        }
    };
    for q in p.qs.iter_mut() {
        fit(&mut q.name)
    }
    for s in p.secs.iter_mut() {
        for rec in s.iter_mut() {
            fit(&mut rec.name);
            if let Rd::Fields(fs) = &mut rec.rd {
                for f in fs.iter_mut() {
                    if let F::Name(n) = f {
                        fit(n)
                    }
                    if let F::Gw(GwM::Name(n)) = f {
                        fit(n)
                    }
                }
            }
        }
    }
    let m = p.to_wire(rr.usize(0, 3));
    encode(&m, if rr.bool() { Plan::Canonical } else { Plan::None }).bytes
}

pub fn run(ctx: &mut Ctx) {
    if let Some(c) = ctx.replay_case.clone() {
        if let Some(b) = c["bytes"].as_str().and_then(unhex) {
            observe_all(ctx, c["family"].as_str().unwrap_or("replay"), c["idx"].as_u64().unwrap_or(0), &b);
            return;
        }
    }
    let tier = ctx.tier;
    let seed = ctx.seed;
    let n = if ctx.slow_tool { 48 } else { tier.pick(80_000u64, 5_000_000u64) };
    for idx in 0..n {
        if !ctx.take("hostile", idx) {
            continue;
        }
        let b = hostile_msg(seed, idx);
        ctx.sample("hostile", || json!({"bytes": hex(&b)}));
        if !observe_all(ctx, "hostile", idx, &b) {
            ctx.count("hostile_generated_but_rejected");
        }
    }
    // bounded-exhaustive: every short string over an alphabet of the bytes that text-handling code treats specially, as the
    // only string of a TXT record, as one of two, and as both strings of a HINFO record
    if ctx.family_active("txt-small") {
        const ALPHA: [u8; 10] = [b'k', b'=', b'"', b'\\', b';', b' ', 0x00, 0xC3, 0xA9, 0xFF];
        let lmax = if ctx.slow_tool { 1 } else { tier.pick(4usize, 5usize) };
        let mut base = 0u64;
        for l in 0..=lmax {
            let total = 10u64.pow(l as u32);
            for k in 0..total {
                let idx = base + k;
                if !ctx.take("txt-small", idx) {
                    continue;
                }
                let s1: Vec<u8> = crate::gen::digits(k, 10, l).into_iter().map(|d| ALPHA[d]).collect();
                // second string: the reverse of the first with its first byte dropped (deterministic, also short)
                let s2: Vec<u8> = s1.iter().rev().skip(1).copied().collect();
                let mut b = vec![(idx >> 8) as u8, idx as u8, 0x84, 0, 0, 0, 0, 3, 0, 0, 0, 0];
                let owner = [1u8, b't', 0];
                let mut rr = |rtype: u16, rd: &[u8]| {
                    b.extend_from_slice(&owner);
                    b.extend_from_slice(&rtype.to_be_bytes());
                    b.extend_from_slice(&[0, 1, 0, 0, 0, 9]);
                    b.extend_from_slice(&(rd.len() as u16).to_be_bytes());
                    b.extend_from_slice(rd);
                };
                let cs = |s: &[u8]| { let mut v = vec![s.len() as u8]; v.extend_from_slice(s); v };
                rr(16, &cs(&s1));
                rr(16, &[cs(&s2), cs(&s1)].concat());
                rr(13, &[cs(&s1), cs(&s2)].concat());
                ctx.add("short_special_strings", 1);
                if !observe_all(ctx, "txt-small", idx, &b) {
                    ctx.count("txt_small_generated_but_rejected");
                }
            }
            base += total;
        }
        ctx.sample("txt-small", || json!({"alphabet": "k = \" \\ ; space NUL C3 A9 FF", "max_len": lmax}));
    }
    // names made of the labels real zones use (special-use and infrastructure names), 1..4 labels each, as question name, owner,
    // PTR target and SRV target of a small hand-assembled response; every inspection runs on them and on their pairs
    if ctx.family_active("vocab-names") {
        let n = super::c17::VOCAB.len() as u64;
        let total = n + n * n + n * n * n + n * n * n * n;
        let step = if ctx.slow_tool { 9973 } else { tier.pick(11u64, 1u64) };
        let mut cur = 0u64;
        while cur < total {
            let idx = cur;
            cur += step;
            if !ctx.take("vocab-names", idx) {
                continue;
            }
            if ctx.stop("vocab-names") {
                break;
            }
            let wire = |k: u64| -> Vec<u8> {
                let mut v = Vec::new();
                for l in super::c17::vocab_name(k % total).unwrap() {
                    v.push(l.len() as u8);
                    v.extend_from_slice(l.as_bytes());
                }
                v.push(0);
                v
            };
            let (n1, n2, n3) = (wire(idx), wire(idx / n), wire(idx.wrapping_mul(31) + 7));
            let mut b = vec![(idx >> 8) as u8, idx as u8, 0x84, 0, 0, 1, 0, 2, 0, 0, 0, 0];
            b.extend_from_slice(&n1);
            b.extend_from_slice(&[0, 12, 0, 1]);
            b.extend_from_slice(&n2);
            b.extend_from_slice(&[0, 12, 0, 1, 0, 0, 0, 9]);
            b.extend_from_slice(&(n1.len() as u16).to_be_bytes());
            b.extend_from_slice(&n1);
            b.extend_from_slice(&n1);
            b.extend_from_slice(&[0, 33, 0x80, 1, 0, 0, 0, 9]);
            b.extend_from_slice(&(n3.len() as u16 + 6).to_be_bytes());
            b.extend_from_slice(&[0, 0, 0, 0, 0, 80]);
            b.extend_from_slice(&n3);
            // a label that *contains* dots and spells the text of another name of the message ("x.b.local" as one label next to
            // the name b.local): text-level shortcuts see a subdomain where the labels say otherwise
            {
                let other: Vec<&str> = super::c17::vocab_name((idx / n) % total).unwrap();
                let dotted = format!("{}.{}", ["x", "a", "_x", "X"][(idx % 4) as usize], other.join("."));
                if dotted.len() <= 63 {
                    let mut owner = vec![dotted.len() as u8];
                    owner.extend_from_slice(dotted.as_bytes());
                    if idx % 3 == 0 {
                        owner.extend_from_slice(&[5]);
                        owner.extend_from_slice(b"local");
                    }
                    owner.push(0);
                    b.extend_from_slice(&owner);
                    b.extend_from_slice(&[0, 1, 0, 1, 0, 0, 0, 9, 0, 4, 10, 0, 0, 1]);
                    b[7] += 1;
                    ctx.add("messages_with_a_dotted_label_spelling_another_name", 1);
                }
            }
            ctx.add("well_known_label_messages", 1);
            if !observe_all(ctx, "vocab-names", idx, &b) {
                ctx.count("vocab_generated_but_rejected");
            }
        }
        ctx.sample("vocab-names", || json!({"labels": super::c17::VOCAB}));
    }
    let per_type = if ctx.slow_tool { 1 } else { tier.pick(10u64, 100u64) };
    for ci in 0..42 * per_type {
        if !ctx.take("corpus", ci) {
            continue;
        }
        let (_, enc) = corpus_msg(seed, ci);
        observe_all(ctx, "corpus", ci, &enc.bytes);
    }
    let nh = if ctx.slow_tool { 16 } else { tier.pick(300_000u64, 20_000_000u64) };
    for idx in 0..nh {
        if !ctx.take("havoc", idx) {
            continue;
        }
        if ctx.stop("havoc") {
            break;
        }
        let mut r = ctx.rng("havoc", idx);
        let mut b = if r.bool() { hostile_msg(seed, r.below(50_000)) } else { corpus_msg(seed, r.below(42 * 40)).1.bytes };
        havoc(&mut r, &mut b, seed);
        observe_all(ctx, "havoc", idx, &b);
    }
}
