//! C17 – textual name API: validation, display and suffix algebra.

use crate::bridge;
use crate::ctx::*;
use crate::gen::digits;
use crate::monitor;
use crate::rng::fnv;
use serde_json::json;
use simple_dns::{Label, Name};

pub fn meta() -> Meta {
    Meta {
        rule: "bounded-exhaustive: all strings of length <= 6 (quick) / 8 (thorough) over {a, A, 1, -, _, ., \\, e-acute} through Name::new against an independent grammar \
(split on '.', drop empty pieces; accept iff every piece is 1..63 bytes, first in [A-Za-z0-9_], inner in [A-Za-z0-9_-], last in [A-Za-z0-9], encoded size <= 255); accepted names: \
to_string() = pieces joined by '.', Name::new(to_string()) == name, labels equal the pieces; Label::new over all single-label lengths 0..70 x {valid, bad first, bad last, bad inner}; \
names of 1..5 labels with total wire length 250..260; all ordered pairs of names with <= 4 labels over {a, b} for is_subdomain_of / without (plus local/LOCAL/lOcAl variants for is_link_local). \
non-trivial = every case; distinct = hash of the input",
        assumptions: &[],
        exhaustive: true,
        min_distinct: 100_000,
    }
}

/// labels that real zones use and that code is tempted to treat specially
pub const VOCAB: &[&str] = &["local", "LOCAL", "arpa", "ARPA", "in-addr", "ip6", "254", "169", "8", "e", "f", "_tcp", "_udp", "_services", "_dns-sd", "_sub",
    "b", "db", "lb", "r", "dr", "localhost", "invalid", "test", "example", "onion", "home", "com", "a"];

/// the `cur`-th name of 1..4 labels over VOCAB (None past the end)
pub fn vocab_name(cur: u64) -> Option<Vec<&'static str>> {
    let n = VOCAB.len() as u64;
    let (mut k, mut len, mut span) = (cur, 1usize, n);
    while k >= span {
        k -= span;
        span *= n;
        len += 1;
        if len > 4 {
            return None;
        }
    }
    Some((0..len).map(|i| VOCAB[((k / n.pow(i as u32)) % n) as usize]).collect())
}

fn label_ok(p: &[u8]) -> bool {
    if p.is_empty() || p.len() > 63 {
        return false;
    }
    let first = p[0];
    let last = p[p.len() - 1];
    (first.is_ascii_alphanumeric() || first == b'_')
        && p[1..].iter().all(|c| c.is_ascii_alphanumeric() || *c == b'-' || *c == b'_')
        && last.is_ascii_alphanumeric()
}

fn grammar(s: &str) -> Option<Vec<Vec<u8>>> {
    let pieces: Vec<Vec<u8>> = s.as_bytes().split(|c| *c == b'.').filter(|p| !p.is_empty()).map(|p| p.to_vec()).collect();
    if !pieces.iter().all(|p| label_ok(p)) {
        return None;
    }
    if pieces.iter().map(|p| p.len() + 1).sum::<usize>() + 1 > 255 {
        return None;
    }
    Some(pieces)
}

fn check_string(ctx: &mut Ctx, family: &str, idx: u64, s: &str) {
    ctx.case(true, fnv(s.as_bytes()) ^ 0x17);
    let want = grammar(s);
    let case = || json!({"family": family, "idx": idx, "string": s});
    let got = monitor::guard(|| {
        // the TryFrom<&str> route is the same constructor
        let via_try_from = <Name as std::convert::TryFrom<&str>>::try_from(s).ok();
        let direct = Name::new(s).ok();
        if via_try_from.is_some() != direct.is_some() || via_try_from.as_ref().zip(direct.as_ref()).map(|(a, b)| bridge::obs_name(a) != bridge::obs_name(b)).unwrap_or(false) {
            panic!("VERIF-ORACLE Name::try_from(&str) and Name::new disagree");
        }
        direct.map(|n| {
            // the unchecked constructor and the label-slice conversion build the same name out of a text that passes the checks
            let unchecked = Name::new_unchecked(s);
            let labels: Vec<simple_dns::Label> = n.get_labels().to_vec();
            let from_labels = Name::from(&labels[..]);
            if bridge::obs_name(&unchecked) != bridge::obs_name(&n) || unchecked != n || bridge::obs_name(&from_labels) != bridge::obs_name(&n) || unchecked.to_string() != n.to_string() {
                panic!("VERIF-ORACLE-UNCHECKED");
            }
            let text = n.to_string();
            let again = Name::new(&text).map(|m| m == n).unwrap_or(false);
            (bridge::obs_name(&n), text, again)
        })
    });
    match (got, want) {
        (Err(pn), _) if pn.message.contains("VERIF-ORACLE-UNCHECKED") => ctx.violation("validation", "new-unchecked-differs-from-new", format!("Name::new_unchecked({:?}) / Name::from(labels) is not the name Name::new gives", s), case()),
        (Err(pn), _) if pn.message.contains("VERIF-ORACLE") => ctx.violation("validation", "try-from-str-differs-from-new", format!("Name::try_from({:?}) and Name::new({:?}) disagree", s, s), case()),
        (Err(pn), _) => ctx.panic_violation("Name::new/to_string", &pn, case()),
        (Ok(None), None) => ctx.count("rejected_as_expected"),
        (Ok(Some(_)), None) => ctx.violation("validation", "invalid-name-accepted", format!("Name::new accepted {:?}", s), case()),
        (Ok(None), Some(_)) => ctx.violation("validation", "valid-name-rejected", format!("Name::new rejected {:?}", s), case()),
        (Ok(Some((labels, text, again))), Some(pieces)) => {
            let joined = pieces.iter().map(|p| String::from_utf8_lossy(p).to_string()).collect::<Vec<_>>().join(".");
            if labels != pieces {
                ctx.violation("labels", "labels-differ-from-pieces", format!("{:?} gives labels {:?}", s, labels), case());
            } else if text != joined {
                ctx.violation("display", "display-differs", format!("{:?} displays as {:?}, expected {:?}", s, text, joined), case());
            } else if !again {
                ctx.violation("display", "display-does-not-recreate", format!("re-creating from {:?} gives a different name", text), case());
            } else {
                ctx.count("accepted_as_expected");
            }
        }
    }
}

pub fn run(ctx: &mut Ctx) {
    let alpha: [&str; 8] = ["a", "A", "1", "-", "_", ".", "\\", "é"];
    let lmax = if ctx.slow_tool { 2 } else { ctx.tier.pick(7usize, 8usize) };
    if ctx.family_active("strings") {
        ctx.set_enumerated(true);
        let mut base = 0u64;
        for l in 0..=lmax {
            let total = 8u64.pow(l as u32);
            for k in 0..total {
                let idx = base + k;
                if !ctx.take("strings", idx) {
                    continue;
                }
                if ctx.stop("strings") {
                    break;
                }
                let s: String = digits(k, 8, l).into_iter().map(|d| alpha[d]).collect();
                check_string(ctx, "strings", idx, &s);
            }
            base += total;
        }
        ctx.set_enumerated(false);
        ctx.sample("strings", || json!({"alphabet": alpha, "max_len": lmax}));
    }
    if ctx.family_active("labels") {
        let mut idx = 0u64;
        for len in 0..=70usize {
            for variant in 0..6 {
                idx += 1;
                if !ctx.take("labels", idx) {
                    continue;
                }
                let mut b: Vec<u8> = vec![b'k'; len];
                if len > 0 {
                    match variant {
                        1 => b[0] = b'-',
                        2 => b[len - 1] = b'-',
                        3 => b[len - 1] = b'_',
                        4 => b[len / 2] = b'.',
                        5 => b[0] = b'_',
                        _ => {}
                    }
                }
                ctx.case(true, fnv(&b) ^ 0x1A);
                let want = label_ok(&b);
                let case = || json!({"family": "labels", "idx": idx, "label": String::from_utf8_lossy(&b)});
                match monitor::guard(|| Label::new(&b[..]).is_ok()) {
                    Err(pn) => ctx.panic_violation("Label::new", &pn, case()),
                    Ok(got) => {
                        if got != want {
                            ctx.violation("validation", if got { "invalid-label-accepted" } else { "valid-label-rejected" }, format!("Label::new({:?}) = {}", String::from_utf8_lossy(&b), got), case());
                        } else {
                            ctx.count("labels_as_expected");
                        }
                    }
                }
                // the same label as a whole name and inside a name
                if let Ok(s) = String::from_utf8(b.clone()) {
                    check_string(ctx, "labels", idx, &s);
                    check_string(ctx, "labels", idx, &format!("x.{}.y", s));
                }
            }
        }
    }
    // every byte: all labels of one and of two bytes through Label::new (65 792 labels), and every character of the two-byte
    // UTF-8 range (U+0080..U+07FF) plus samples of the wider ones as first / inner / last character of a label inside a name
    if ctx.family_active("bytes") {
        let step = if ctx.slow_tool { 509u32 } else { 1 };
        for k in (0..65_792u32).step_by(step as usize) {
            if !ctx.take("bytes", k as u64) {
                continue;
            }
            let b: Vec<u8> = if k < 256 { vec![k as u8] } else { vec![((k - 256) >> 8) as u8, (k - 256) as u8] };
            ctx.case(true, 0xB7E5_0000 ^ k as u64);
            let want = label_ok(&b);
            match monitor::guard(|| Label::new(&b[..]).is_ok()) {
                Err(pn) => ctx.panic_violation("Label::new", &pn, json!({"family": "bytes", "idx": k})),
                Ok(got) if got != want => ctx.violation("validation", if got { "invalid-label-accepted" } else { "valid-label-rejected" }, format!("Label::new({:02x?}) = {}", b, got), json!({"family": "bytes", "idx": k})),
                Ok(_) => ctx.count("byte_labels_as_expected"),
            }
        }
        let wide = ['\u{0800}', '\u{20AC}', '\u{4E2A}', '\u{D55C}', '\u{FF21}', '\u{FFFD}', '\u{10000}', '\u{1F600}', '\u{10FFFF}'];
        let chars: Vec<char> = (0x80u32..0x800).filter_map(char::from_u32).chain(wide.iter().copied()).collect();
        for (i, c) in chars.iter().enumerate().step_by(if ctx.slow_tool { 97 } else { 1 }) {
            let idx = 100_000 + i as u64;
            if !ctx.take("bytes", idx) {
                continue;
            }
            for t in [format!("{}", c), format!("{}a", c), format!("a{}", c), format!("a{}a", c), format!("x.a{}b.local", c), format!("{}.local", c), format!("x.{}", c)] {
                check_string(ctx, "bytes", idx, &t);
            }
            ctx.add("non_ascii_characters_tried", 1);
        }
    }
    if ctx.family_active("lengths") {
        let mut idx = 0u64;
        for wire in 245..=262usize {
            for nlabels in 4..=9usize {
                idx += 1;
                if !ctx.take("lengths", idx) {
                    continue;
                }
                // labels summing to wire-1 bytes including their length bytes
                let body = wire - 1;
                if body < 2 * nlabels {
                    continue;
                }
                let base = body / nlabels;
                let mut parts: Vec<usize> = vec![base; nlabels];
                let used: usize = base * nlabels;
                parts[0] += body - used;
                if parts.iter().any(|p| *p < 2 || *p > 64) {
                    continue;
                }
                let s = parts.iter().map(|p| "m".repeat(p - 1)).collect::<Vec<_>>().join(".");
                ctx.add("length_boundary_names", 1);
                check_string(ctx, "lengths", idx, &s);
                check_string(ctx, "lengths", idx, &format!("{}.", s));
                // empty labels cost nothing in the encoded form: the text may be longer than 255 characters
                for extra in [1usize, 2, 5, 12, 300] {
                    check_string(ctx, "lengths", idx, &format!("{}{}", s, ".".repeat(extra)));
                    check_string(ctx, "lengths", idx, &format!("{}{}", ".".repeat(extra), s));
                    check_string(ctx, "lengths", idx, &s.replace('.', &".".repeat(extra + 1)));
                }
                ctx.add("length_boundary_names_with_redundant_dots", 15);
            }
        }
    }
    if ctx.family_active("lengths") {
        // many short labels: 127 one-character labels are exactly 255 bytes, one more is too many; a bad label may sit anywhere
        for n in 100..=140usize {
            let idx = 20_000 + n as u64;
            if !ctx.take("lengths", idx) {
                continue;
            }
            let base = vec!["a"; n].join(".");
            check_string(ctx, "lengths", idx, &base);
            check_string(ctx, "lengths", idx, &format!("{}.", base));
            check_string(ctx, "lengths", idx, &format!("{}.-", base));
            check_string(ctx, "lengths", idx, &format!("{}.bb", base));
            check_string(ctx, "lengths", idx, &format!("-.{}", base));
            check_string(ctx, "lengths", idx, &format!("{}.{}", base, "b".repeat(64)));
            check_string(ctx, "lengths", idx, &base.replacen("a.a", "a..a", 3));
            ctx.add("names_of_100_to_140_labels", 7);
        }
    }
    if ctx.family_active("lengths") {
        // short names in long texts
        for (i, extra) in [250usize, 254, 255, 256, 300, 1000, 70_000].iter().enumerate() {
            let idx = 10_000 + i as u64;
            if !ctx.take("lengths", idx) {
                continue;
            }
            check_string(ctx, "lengths", idx, &format!("a{}local", ".".repeat(*extra)));
            check_string(ctx, "lengths", idx, &format!("{}a.b", ".".repeat(*extra)));
            check_string(ctx, "lengths", idx, &format!("a.b{}", ".".repeat(*extra)));
            check_string(ctx, "lengths", idx, &".".repeat(*extra));
        }
    }
    // names made of the labels real zones use (the special-use and infrastructure names of RFC 6761, 6762, 6763, 3596, 1035):
    // code that treats one of them specially must still follow the plain rules above
    if ctx.family_active("vocab") {
        let n = VOCAB.len() as u64;
        let total = n + n * n + n * n * n + n * n * n * n;
        let step = if ctx.slow_tool { 997 } else { ctx.tier.pick(7u64, 1u64) };
        let mut idx = 0u64;
        while idx < total {
            let cur = idx;
            idx += step;
            if !ctx.take("vocab", cur) {
                continue;
            }
            let labels = vocab_name(cur).unwrap();
            let len = labels.len();
            let text = labels.join(".");
            check_string(ctx, "vocab", cur, &text);
            let case = || json!({"family": "vocab", "idx": cur, "string": text});
            let cut = (cur % len as u64) as usize;
            let suffix = labels[cut..].join(".");
            let r = monitor::guard(|| {
                let a = Name::new(&text).unwrap();
                let b = Name::new(&suffix).unwrap();
                let o = a.clone().into_owned();
                (a.is_link_local(), o.is_link_local(), a.is_subdomain_of(&b), b.is_subdomain_of(&a), a.without(&b).map(|n| bridge::obs_name(&n)), a.iter().count(), a.is_subdomain_of(&a))
            });
            let want_ll = labels.last().map(|l| l.eq_ignore_ascii_case("local")).unwrap_or(false);
            let want_without: Option<Vec<Vec<u8>>> = if cut > 0 { Some(labels[..cut].iter().map(|l| l.as_bytes().to_vec()).collect()) } else { None };
            match r {
                Err(pn) => ctx.panic_violation("inspection of a name made of well-known labels", &pn, case()),
                Ok((ll, oll, sub, rsub, without, count, self_sub)) => {
                    if ll != want_ll || oll != want_ll {
                        ctx.violation("link-local", "is_link_local-differs", format!("{:?}.is_link_local() = {} (owned copy: {})", text, ll, oll), case());
                    } else if sub != (cut > 0) || rsub || self_sub {
                        ctx.violation("suffix-algebra", "is_subdomain_of-differs", format!("{:?} vs its suffix {:?}: {} / reverse {} / self {}", text, suffix, sub, rsub, self_sub), case());
                    } else if without != want_without {
                        ctx.violation("suffix-algebra", "without-differs", format!("{:?}.without({:?}) = {:?}", text, suffix, without), case());
                    } else if count != len {
                        ctx.violation("labels", "labels-differ-from-pieces", format!("{:?} iterates {} labels", text, count), case());
                    } else {
                        ctx.count("vocabulary_names_as_expected");
                    }
                }
            }
        }
    }
    if ctx.family_active("pairs") {
        // all names with <= 4 labels over {a, b}: 1 + 2 + 4 + 8 + 16 = 31, plus local variants
        let mut names: Vec<Vec<&str>> = vec![vec![]];
        for l in 1..=4usize {
            for k in 0..(1u64 << l) {
                names.push((0..l).map(|i| if k >> i & 1 == 1 { "b" } else { "a" }).collect());
            }
        }
        for v in ["local", "LOCAL", "lOcAl", "locale", "xlocal"] {
            names.push(vec![v]);
            names.push(vec!["a", v]);
            names.push(vec![v, "a"]);
        }
        let mut idx = 0u64;
        for x in &names {
            for y in &names {
                idx += 1;
                if !ctx.take("pairs", idx) {
                    continue;
                }
                ctx.case(true, idx ^ 0x1B00000);
                let (sx, sy) = (x.join("."), y.join("."));
                let case = || json!({"family": "pairs", "idx": idx, "a": sx, "b": sy});
                let r = monitor::guard(|| {
                    let a = Name::new(&sx).unwrap();
                    let b = Name::new(&sy).unwrap();
                    (a.is_subdomain_of(&b), a.without(&b).map(|n| bridge::obs_name(&n)), a.is_link_local())
                });
                let want_sub = x.len() > y.len() && x[x.len() - y.len()..] == y[..];
                let want_without: Option<Vec<Vec<u8>>> = if want_sub { Some(x[..x.len() - y.len()].iter().map(|l| l.as_bytes().to_vec()).collect()) } else { None };
                let want_ll = x.last().map(|l| l.eq_ignore_ascii_case("local")).unwrap_or(false);
                match r {
                    Err(pn) => ctx.panic_violation("suffix algebra", &pn, case()),
                    Ok((sub, without, ll)) => {
                        if sub != want_sub {
                            ctx.violation("suffix-algebra", "is_subdomain_of-differs", format!("{:?}.is_subdomain_of({:?}) = {}", sx, sy, sub), case());
                        } else if without != want_without {
                            ctx.violation("suffix-algebra", "without-differs", format!("{:?}.without({:?}) = {:?}", sx, sy, without), case());
                        } else if ll != want_ll {
                            ctx.violation("link-local", "is_link_local-differs", format!("{:?}.is_link_local() = {}", sx, ll), case());
                        } else {
                            ctx.count("pairs_as_expected");
                        }
                    }
                }
            }
        }
    }
}
