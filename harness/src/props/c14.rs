//! C14 – no datagram can crash or wedge the mDNS services.
//!
//! Level 1 (all shards): the three handler pipelines re-enacted with the real functions over a store shared
//! with an "application" thread. Level 2 (shard 0 only): the real services on loopback multicast.

use super::c01::{corpus_msg, havoc};
use super::c12::hostile_msg;
use crate::bridge;
use crate::ctx::*;
use crate::gen::{digits, Cfg, Gen};
use crate::model::*;
use crate::monitor;
use crate::refdns::*;
use crate::rng::Rng;
use serde_json::json;
use simple_dns::rdata::{RData, A};
use simple_dns::{header_buffer, Name, Packet, PacketFlag, Question, ResourceRecord, CLASS, TYPE};
use simple_mdns::verif::{add_response_to_resources, build_reply, DomainResourceFilter, ResourceRecordManager};
use simple_mdns::InstanceInformation;
use std::net::{Ipv4Addr, SocketAddr, UdpSocket};
use std::sync::atomic::{AtomicBool, Ordering};
use std::sync::{Arc, RwLock};
use std::time::{Duration, Instant};

pub fn meta() -> Meta {
    Meta {
        rule: "level 1 (pipeline, every input): responder (header peek with unwrap_or(true) -> parse -> build_reply under the read lock -> compressed serialisation), discovery listener \
(parse -> add_response_to_resources under the write lock, or the reply path) and resolver (three peeks on the 4096-byte buffer -> parse -> answer scan) are re-enacted with the real functions on \
datagrams of length 0..=12 (patterned exhaustively), the C01 corpus with every truncation, hostile-name responses under the watched service, hostile queries, havoc and sizes up to 9000, against \
stores pre-filled with colliding names while an application thread mutates and reads the shared store; monitors: panic recorder in every thread, RwLock poison probe after every datagram, \
re-parse of every produced reply. level 2 (real sockets, sampled): sync and tokio SimpleMdnsResponder, ServiceDiscovery (without on_discovery, with it, and with it after the application dropped the receiver) and OneShotMdnsResolver run in-process on \
loopback multicast; batches of datagrams are followed by marker queries (unicast-response bit, unique names) whose replies prove each loop consumed the batch; every reply datagram received from a real \
service (marker replies, and two replies of about 12.8 KB built from 60 TXT records) must be a well-formed DNS message for Packet::parse and the envelope walker; monitors: global panic hook \
(library threads and tokio workers), an application thread that keeps calling announce(true/false) and get_known_services() on two sync discoveries during the traffic (a call that has not returned for 10 s is a violation), followed by a storm of 60 000 back-to-back goodbyes under a flood of responses; a lock-discipline monitor in place of the sync store's RwLock (hook verif_lock: any acquisition by a thread that already holds that lock is recorded with its source line, whether or not it deadlocked this time); lock-health probes through the public API afterwards, each on its own thread and required to return within 10 s. The traffic includes responses about the very name the resolvers ask for (asked and other types, valid / empty / odd RDATA) and, for every watched service, a peer's announcement followed later by its goodbye (TTL 0). A missing marker reply without a recorded panic is inconclusive; three consecutive silent rounds of one service while others answer are a stopped loop; if level 2 cannot start the run is inconclusive. non-trivial = datagram that is not a \
well-formed message (parser rejects it) or carries a hostile name; distinct = hash of bytes",
        assumptions: &["level 1 re-enacts the private loop bodies and cannot see edits inside them; level 2 sees them for the sampled datagrams", "loopback multicast on 224.0.0.251:5353 must be available for level 2 (else the run says inconclusive)"],
        exhaustive: false,
        min_distinct: 2000,
    }
}

const SERVICE: &str = "_verif._tcp.local";

struct World {
    store: Arc<RwLock<ResourceRecordManager<'static>>>,
    service: Name<'static>,
    own: Name<'static>,
    tx: Option<std::sync::mpsc::Sender<InstanceInformation>>,
    _rx: std::sync::mpsc::Receiver<InstanceInformation>,
}

fn prefill(r: &mut Rng) -> ResourceRecordManager<'static> {
    let mut s = ResourceRecordManager::new();
    let service = Name::new(SERVICE).unwrap().into_owned();
    let own = Name::new(&format!("self.{}", SERVICE)).unwrap().into_owned();
    s.add_authoritative_resource(ResourceRecord::new(service.clone(), CLASS::IN, 10, RData::PTR(own.clone().into())));
    let info = InstanceInformation::new("self".into()).with_ip_address(Ipv4Addr::new(10, 0, 0, 1).into()).with_port(8080).with_attribute("k".into(), Some("v".into()));
    for rec in info.into_records(&own, 10).unwrap() {
        s.add_authoritative_resource(rec.into_owned());
    }
    // colliding names of C13 plus random records
    for rec in super::c13::u0_records() {
        if r.chance(2, 3) {
            let rr = bridge::lib_record(&rec).unwrap().into_owned();
            if r.bool() {
                s.add_authoritative_resource(rr)
            } else {
                s.add_cached_resource(rr)
            }
        }
    }
    let mut g = Gen::new(r, Cfg { share: 70, binary_labels: false, ..Default::default() });
    for _ in 0..g.r.usize(0, 12) {
        let t = *g.r.pick(&[1u16, 28, 33, 16, 12]);
        let rec = g.record_of(t);
        if let Ok(rr) = bridge::lib_record(&rec) {
            s.add_authoritative_resource(rr.into_owned());
        }
    }
    s
}

fn new_world(r: &mut Rng) -> World {
    let (tx, rx) = std::sync::mpsc::channel();
    World {
        store: Arc::new(RwLock::new(prefill(r))),
        service: Name::new(SERVICE).unwrap().into_owned(),
        own: Name::new(&format!("self.{}", SERVICE)).unwrap().into_owned(),
        tx: Some(tx),
        _rx: rx,
    }
}

/// responder loop body (simple_responder.rs), with the real functions
fn responder_body(w: &World, buf: &[u8]) -> Option<Vec<u8>> {
    if header_buffer::has_flags(buf, PacketFlag::RESPONSE).unwrap_or(true) {
        return None;
    }
    match Packet::parse(buf) {
        Ok(packet) => match build_reply(packet, &w.store.read().unwrap()) {
            Some((reply_packet, _unicast)) => reply_packet.build_bytes_vec_compressed().ok(),
            None => None,
        },
        Err(_) => None,
    }
}

/// discovery listener loop body (service_discovery.rs)
fn discovery_body(w: &mut World, buf: &[u8]) -> Option<Vec<u8>> {
    match Packet::parse(buf) {
        Ok(packet) => {
            if packet.has_flags(PacketFlag::RESPONSE) {
                add_response_to_resources(packet, &w.service, &w.own, &mut w.store.write().unwrap(), &mut w.tx);
                None
            } else {
                match build_reply(packet, &w.store.read().unwrap()) {
                    Some((reply_packet, _)) => reply_packet.build_bytes_vec_compressed().ok(),
                    None => None,
                }
            }
        }
        Err(_) => None,
    }
}

/// one-shot resolver body (oneshot_resolver.rs): peeks on the whole 4096-byte buffer, then parse + scan
fn resolver_body(buf4096: &[u8; 4096], count: usize, wanted: &Name) -> Option<u32> {
    let pass = header_buffer::has_flags(buf4096, PacketFlag::RESPONSE).ok()? && header_buffer::id(buf4096).ok()? == 0 && header_buffer::answers(buf4096).ok()? > 0;
    if !pass {
        return None;
    }
    let buffer = buf4096[..count].to_vec();
    let response = Packet::parse(&buffer).ok()?;
    let port = response.answers.iter().filter(|a| a.name == *wanted && a.match_qtype(TYPE::SRV.into())).find_map(|a| match &a.rdata {
        RData::SRV(srv) => Some(srv.port as u32),
        _ => None,
    });
    for answer in response.answers {
        if answer.name != *wanted {
            continue;
        }
        return match answer.rdata {
            RData::A(a) => Some(a.address),
            RData::AAAA(_) => Some(6),
            _ => port,
        };
    }
    None
}

/// some stacks (and every attacker) send more than one OPT pseudo-record, anywhere in the additional section
/// (drawn from a stream of its own, so that the other datagrams of the family stay what they were)
fn extra_opt_records(mut r: Rng, p: &mut PktM) {
    if !r.chance(1, 5) {
        return;
    }
    for _ in 0..r.usize(1, 3) {
        let opts = if r.bool() { vec![] } else { let n = r.usize(0, 9); vec![(r.int(16) as u16, r.bytes(n))] };
        let rec = RecSem { name: vec![], rtype: 41, class: *r.pick(&[0u16, 512, 1232, 4096, 65535]), flush: false, ttl: if r.bool() { 0 } else { r.int(32) as u32 }, rd: Rd::Fields(vec![F::Pairs(opts)]) };
        let at = r.usize(0, p.secs[2].len());
        p.secs[2].insert(at, rec);
    }
}

fn datagram(ctx: &Ctx, family: &str, idx: u64) -> Vec<u8> {
    let seed = ctx.seed;
    let mut r = ctx.rng(family, idx);
    match family {
        "short" => {
            let alpha = [0x00u8, 0x01, 0x80, 0xFF, 0x84];
            let len = (idx % 13) as usize;
            let k = idx / 13;
            let d = digits(k, 5, 13);
            (0..len).map(|i| alpha[d[i]]).collect()
        }
        "corpus" => corpus_msg(seed, idx).1.bytes,
        "hostile-response" => {
            // valid response whose owner names are (hostile) subdomains of the watched service
            let mut g = Gen::new(&mut r, Cfg { share: 60, max_entries: 3, max_rest: 8, edns: 5, ..Default::default() });
            let mut p = g.packet();
            p.flags |= 0x8000;
            let svc: NameM = SERVICE.split('.').map(|l| l.as_bytes().to_vec()).collect();
            for s in p.secs.iter_mut() {
                for rec in s.iter_mut() {
                    if g.r.chance(3, 4) {
                        let mut n = svc.clone();
                        let mut l = g.label();
                        if g.r.bool() {
                            l = crate::gen::HOSTILE_BYTES[g.r.below(16) as usize].to_vec();
                        }
                        n.insert(0, l);
                        if g.r.chance(1, 4) {
                            let l2 = g.label();
                            n.insert(0, l2);
                        }
                        rec.name = n;
                        rec.class = 1;
                    }
                }
            }
            for _ in 0..g.r.usize(1, 3) {
                let t = *g.r.pick(&[1u16, 28, 33, 16, 12]);
                let mut rec = g.record_of(t);
                let mut n = svc.clone();
                let hb: &[u8] = *g.r.pick(&crate::gen::HOSTILE_BYTES);
                n.insert(0, hb.to_vec());
                rec.name = n;
                rec.class = 1;
                let s = *g.r.pick(&[0usize, 2]);
                p.secs[s].push(rec);
            }
            extra_opt_records(ctx.rng("extra-opt", idx), &mut p);
            encode(&p.to_wire(0), Plan::Canonical).bytes
        }
        "hostile-query" => {
            let mut g = Gen::new(&mut r, Cfg { share: 50, long_names: true, ..Default::default() });
            let mut p = PktM { id: g.r.int(16) as u16, ..Default::default() };
            let names = super::c13::u0_names();
            for _ in 0..g.r.usize(1, 4) {
                let mut q = g.question();
                match g.r.below(4) {
                    0 => q.name = g.r.pick(&names).clone(),
                    1 => q.name = SERVICE.split('.').map(|l| l.as_bytes().to_vec()).collect(),
                    2 => { let wl = *g.r.pick(&[253usize, 254, 255]); q.name = g.name_of_wire_len(wl) }
                    _ => {}
                }
                q.qclass = *g.r.pick(&[1u16, 255]);
                q.qtype = *g.r.pick(&[1u16, 28, 33, 16, 12, 255]);
                p.qs.push(q);
            }
            if g.r.chance(1, 3) {
                let udp = *g.r.pick(&[0u16, 1, 11, 12, 13, 40, 100, 511, 512, 1232, 4096, 65535]);
                let opts = if g.r.bool() { vec![] } else { let n = g.r.usize(0, 12); vec![(g.r.int(16) as u16, g.r.bytes(n))] };
                p.edns = Some(EdnsM { udp, version: *g.r.pick(&[0u8, 0, 1, 255]), opts });
            }
            extra_opt_records(ctx.rng("extra-opt", idx), &mut p);
            encode(&p.to_wire(0), Plan::Canonical).bytes
        }
        "valid" => {
            // ordinary traffic: an announcement or a service query
            if r.bool() {
                let svc = Name::new(SERVICE).unwrap();
                let inst = Name::new(&format!("peer{}.{}", r.below(5), SERVICE)).unwrap().into_owned();
                let info = InstanceInformation::new("p".into()).with_ip_address(Ipv4Addr::new(10, 0, 1, r.below(5) as u8).into()).with_port(80 + r.below(3) as u16);
                let mut p = Packet::new_reply(0);
                for rec in info.into_records(&inst, 120).unwrap() {
                    p.answers.push(rec);
                }
                let _ = svc;
                p.build_bytes_vec_compressed().unwrap()
            } else {
                let mut p = Packet::new_query(0);
                p.questions.push(Question::new(Name::new(SERVICE).unwrap(), TYPE::PTR.into(), CLASS::IN.into(), r.bool()));
                p.questions.push(Question::new(Name::new(SERVICE).unwrap(), TYPE::SRV.into(), CLASS::IN.into(), false));
                // one query in three comes from an EDNS-speaking stack: any payload size can be advertised, sensible or not
                if r.chance(1, 3) {
                    let udp = *r.pick(&[0u16, 1, 11, 12, 13, 40, 100, 511, 512, 1232, 4096, 65535]);
                    *p.opt_mut() = Some(simple_dns::rdata::OPT { opt_codes: vec![], udp_packet_size: udp, version: if r.chance(1, 4) { r.u8() } else { 0 } });
                }
                p.build_bytes_vec_compressed().unwrap()
            }
        }
        "big" => {
            let n = r.usize(1500, 9000);
            let mut b = hostile_msg(seed, idx);
            while b.len() < n {
                let more = hostile_msg(seed, r.below(10_000));
                b.extend_from_slice(&more[12.min(more.len())..]);
            }
            b.truncate(n);
            if r.bool() && b.len() > 12 {
                // plausible counts
                b[6] = 0;
                b[7] = r.below(40) as u8;
            }
            b
        }
        _ => {
            let mut b = match r.below(3) {
                0 => hostile_msg(seed, r.below(50_000)),
                1 => corpus_msg(seed, r.below(42 * 40)).1.bytes,
                _ => datagram(ctx, "hostile-response", r.below(50_000)),
            };
            havoc(&mut r, &mut b, seed);
            b
        }
    }
}

fn level1_one(ctx: &mut Ctx, w: &mut World, world_rng: &mut Rng, family: &str, idx: u64, d: &[u8]) {
    let parses = monitor::guard(|| Packet::parse(d).is_ok()).unwrap_or(false);
    ctx.case_bytes(!parses || family.starts_with("hostile") || family == "big", d);
    ctx.count(&format!("datagrams_{}", family));
    let case = || case_bytes_json(family, idx, d);
    let mut replies: Vec<(&str, Vec<u8>)> = Vec::new();
    // responder
    match monitor::guard(|| responder_body(w, d)) {
        Ok(Some(r)) => replies.push(("responder", r)),
        Ok(None) => {}
        Err(pn) => {
            let loc = monitor::short_loc(&pn.location);
            ctx.violation("handler-never-panics", &format!("panic@{}", loc), format!("responder pipeline panicked on a {}-byte datagram at {}: {}", d.len(), loc, pn.message), case());
        }
    }
    // discovery listener
    match monitor::guard(|| discovery_body(w, d)) {
        Ok(Some(r)) => replies.push(("discovery", r)),
        Ok(None) => {}
        Err(pn) => {
            let loc = monitor::short_loc(&pn.location);
            ctx.violation("handler-never-panics", &format!("panic@{}", loc), format!("discovery listener pipeline panicked on a {}-byte datagram at {}: {}", d.len(), loc, pn.message), case());
        }
    }
    // resolver: only datagrams up to 4096 bytes fit its buffer (larger ones are truncated by recv_from)
    {
        let mut b = [0u8; 4096];
        let n = d.len().min(4096);
        b[..n].copy_from_slice(&d[..n]);
        let wanted = Name::new("self._verif._tcp.local").unwrap();
        if let Err(pn) = monitor::guard(|| resolver_body(&b, n, &wanted)) {
            let loc = monitor::short_loc(&pn.location);
            ctx.violation("handler-never-panics", &format!("panic@{}", loc), format!("resolver pipeline panicked on a {}-byte datagram at {}: {}", d.len(), loc, pn.message), case());
        }
    }
    // lock health
    if w.store.is_poisoned() {
        ctx.violation("store-stays-usable", "store-lock-poisoned", format!("the shared store's RwLock is poisoned after a {}-byte datagram", d.len()), case());
        *w = new_world(world_rng);
    }
    for (who, r) in replies {
        ctx.count("replies_produced");
        ctx.max("largest_reply_bytes", r.len() as f64);
        if r.len() > 16384 {
            ctx.count("replies_beyond_16_KiB");
        }
        if monitor::guard(|| Packet::parse(&r).is_ok()).unwrap_or(false) {
            ctx.count("replies_reparsed_ok");
        } else {
            ctx.violation("reply-parseable", &format!("unparseable-reply:{}", who), format!("{} produced a {}-byte reply that Packet::parse rejects", who, r.len()),
                json!({"family": family, "idx": idx, "bytes": hex(d), "reply": hex(&r)}));
        }
    }
}

fn level1(ctx: &mut Ctx) {
    let mut world_rng = Rng::for_case(ctx.seed, "c14-world", ctx.shard);
    let mut w = new_world(&mut world_rng);
    // application thread: concurrently mutates and reads the store as the public API does
    let stop = Arc::new(AtomicBool::new(false));
    let app_poison_seen = Arc::new(AtomicBool::new(false));
    let spawn_app = |store: Arc<RwLock<ResourceRecordManager<'static>>>, stop: Arc<AtomicBool>, seen: Arc<AtomicBool>, seed: u64| {
        std::thread::Builder::new().name("verif-app".into()).spawn(move || {
            let mut r = Rng::new(seed);
            let name = Name::new("app.local").unwrap().into_owned();
            let svc = Name::new(SERVICE).unwrap().into_owned();
            while !stop.load(Ordering::Relaxed) {
                let rr = ResourceRecord::new(name.clone(), CLASS::IN, 5, RData::A(A { address: r.below(8) as u32 }));
                match store.write() {
                    Ok(mut g) => {
                        if r.bool() { g.add_authoritative_resource(rr) } else { g.remove_resource_record(&rr) }
                    }
                    Err(_) => { seen.store(true, Ordering::Relaxed); }
                }
                match store.read() {
                    Ok(g) => { let _ = g.get_domain_resources(&svc, DomainResourceFilter::cached()).flatten().count(); }
                    Err(_) => { seen.store(true, Ordering::Relaxed); }
                }
                // leave the lock to the handler most of the time (it is the system under test)
                std::thread::sleep(Duration::from_micros(150));
            }
        }).ok()
    };
    let app = spawn_app(w.store.clone(), stop.clone(), app_poison_seen.clone(), ctx.seed ^ 0xA99);
    let tier = ctx.tier;
    let slow = ctx.slow_tool;
    let plan: Vec<(&str, u64)> = vec![
        ("short", if slow { 40 } else { 13 * 3125 }),
        ("valid", if slow { 10 } else { tier.pick(3_000, 100_000) }),
        ("hostile-response", if slow { 30 } else { tier.pick(40_000, 2_000_000) }),
        ("hostile-query", if slow { 30 } else { tier.pick(30_000, 1_500_000) }),
        ("corpus", if slow { 42 } else { tier.pick(42 * 6, 42 * 40) }),
        ("big", if slow { 4 } else { tier.pick(1_500, 60_000) }),
        ("havoc", if slow { 30 } else { tier.pick(150_000, 6_000_000) }),
    ];
    // the budget test counts this shard's own cases (a test on idx would only ever fire in shard 0)
    let mut done = 0u64;
    for (family, n) in plan {
        for idx in 0..n {
            if !ctx.take(family, idx) {
                continue;
            }
            done += 1;
            if done % 512 == 0 && ctx.time_up() {
                ctx.notes.push(format!("{} stopped at {} of {} (time budget)", family, idx, n));
                break;
            }
            let d = datagram(ctx, family, idx);
            ctx.sample(family, || json!({"bytes": hex(&d[..d.len().min(400)]), "len": d.len()}));
            if family == "corpus" {
                // every truncation of the corpus message as its own datagram
                for cut in 0..=d.len() {
                    level1_one(ctx, &mut w, &mut world_rng, family, idx, &d[..cut]);
                }
            } else {
                level1_one(ctx, &mut w, &mut world_rng, family, idx, &d);
            }
            // interleave valid traffic
            if idx % 16 == 0 {
                let v = datagram(ctx, "valid", idx);
                level1_one(ctx, &mut w, &mut world_rng, "valid", idx, &v);
            }
        }
    }
    // ---- a store large enough for replies beyond 16 KiB (the reach of a compression pointer): ~100 instances of one service,
    // each owning a TXT, an SRV and an address record, asked for through the service name and through instance names
    {
        let nb = if slow { 2 } else { tier.pick(48u64, 2_000u64) };
        let mut big: Option<World> = None;
        for idx in 0..nb {
            if !ctx.take("big-store", idx) {
                continue;
            }
            let bw = big.get_or_insert_with(|| {
                let mut wr = Rng::for_case(ctx.seed, "c14-big-world", 0);
                let bw = new_world(&mut wr);
                {
                    let mut st = bw.store.write().unwrap();
                    let svc = Name::new("_big._tcp.local").unwrap().into_owned();
                    for k in 0..100u32 {
                        let inst = Name::new(&format!("instance-number-{}._big._tcp.local", k)).unwrap().into_owned();
                        st.add_authoritative_resource(ResourceRecord::new(svc.clone(), CLASS::IN, 120, RData::PTR(inst.clone().into())));
                        let text = format!("{:03}={}", k, "t".repeat(150 + (k as usize * 7) % 90));
                        let txt = simple_dns::rdata::TXT::new().with_string(&text).unwrap().into_owned();
                        st.add_authoritative_resource(ResourceRecord::new(inst.clone(), CLASS::IN, 120, RData::TXT(txt)));
                        st.add_authoritative_resource(ResourceRecord::new(inst.clone(), CLASS::IN, 120, RData::SRV(simple_dns::rdata::SRV { port: 8000 + k as u16, priority: 0, weight: 0, target: inst.clone() })));
                        st.add_authoritative_resource(ResourceRecord::new(inst.clone(), CLASS::IN, 120, RData::A(A { address: 0x0A00_0000 + k })));
                    }
                }
                bw
            });
            let mut r = ctx.rng("big-store", idx);
            let mut q = Packet::new_query(idx as u16);
            for _ in 0..r.usize(1, 3) {
                let name = if r.chance(2, 3) { "_big._tcp.local".to_string() } else { format!("instance-number-{}._big._tcp.local", r.below(100)) };
                let qt: simple_dns::QTYPE = match r.below(5) { 0 => TYPE::TXT.into(), 1 => TYPE::SRV.into(), 2 => TYPE::PTR.into(), _ => simple_dns::QTYPE::ANY };
                let qc: simple_dns::QCLASS = if r.bool() { CLASS::IN.into() } else { simple_dns::QCLASS::ANY };
                q.questions.push(Question::new(Name::new(&name).unwrap().into_owned(), qt, qc, r.bool()));
            }
            let d = q.build_bytes_vec_compressed().unwrap();
            level1_one(ctx, bw, &mut world_rng, "big-store", idx, &d);
        }
    }
    stop.store(true, Ordering::Relaxed);
    if let Some(h) = app {
        let _ = h.join();
    }
    if app_poison_seen.load(Ordering::Relaxed) {
        ctx.count("application_thread_saw_poisoned_lock");
    }
}

// ---------------------------------------------------------------------------------------------
// level 2: the real services on loopback multicast

struct Marker {
    what: &'static str,
    name: String,
    qtype: TYPE,
}

fn marker_query(id: u16, name: &str, qtype: TYPE) -> Vec<u8> {
    let mut p = Packet::new_query(id);
    p.questions.push(Question::new(Name::new(name).unwrap(), qtype.into(), CLASS::IN.into(), true));
    p.build_bytes_vec().unwrap()
}

/// send the marker and wait for a reply carrying its id; Some(reply) = the loop answered
fn probe_reply(sock: &UdpSocket, group: &SocketAddr, m: &Marker, id: u16, wait: Duration) -> Option<Vec<u8>> {
    let q = marker_query(id, &m.name, m.qtype);
    let deadline = Instant::now() + wait;
    let mut buf = vec![0u8; 65535];
    let mut sent = Instant::now() - Duration::from_secs(1);
    while Instant::now() < deadline {
        if sent.elapsed() > Duration::from_millis(250) {
            let _ = sock.send_to(&q, group);
            sent = Instant::now();
        }
        match sock.recv_from(&mut buf) {
            Ok((n, _)) => {
                if n >= 12 && u16::from_be_bytes([buf[0], buf[1]]) == id && buf[2] & 0x80 != 0 {
                    return Some(buf[..n].to_vec());
                }
            }
            Err(_) => {}
        }
    }
    None
}

/// "Any reply produced is itself a parseable DNS message": a reply datagram sent by a real service
fn judge_real_reply(ctx: &mut Ctx, what: &str, reply: &[u8]) {
    ctx.count("level2_real_replies_parsed");
    let lib_ok = monitor::guard(|| Packet::parse(reply).is_ok()).unwrap_or(false);
    let walker_ok = decode_envelope(reply).map(|e| e.end == reply.len()).unwrap_or(false);
    if !lib_ok || !walker_ok {
        ctx.violation("reply-parseable", &format!("unparseable-real-reply:{}", what),
            format!("{} sent a {}-byte reply that is not a well-formed DNS message (Packet::parse ok: {}, envelope walker ok: {})", what, reply.len(), lib_ok, walker_ok),
            json!({"family": "level2", "idx": 0, "reply": hex(&reply[..reply.len().min(600)]), "reply_len": reply.len()}));
    }
}

fn probe(ctx: &mut Ctx, sock: &UdpSocket, group: &SocketAddr, m: &Marker, id: u16, wait: Duration) -> bool {
    match probe_reply(sock, group, m, id, wait) {
        Some(r) => {
            judge_real_reply(ctx, m.what, &r);
            true
        }
        None => false,
    }
}

/// A response (id 0, answers > 0) whose records are owned by the name the level-2 resolvers query.
fn named_bait(ctx: &Ctx, idx: u64) -> Vec<u8> {
    let mut r = ctx.rng("named-bait", idx);
    let owner: NameM = vec![b"nobody-home".to_vec(), b"local".to_vec()];
    let mut m = MsgM { id: 0, flags: 0x8400, ..Default::default() };
    for _ in 0..r.usize(1, 4) {
        let rtype = *r.pick(&[33u16, 33, 33, 1, 28, 16, 12, 47, 65280]);
        let rd: Vec<u8> = match (rtype, r.below(4)) {
            (_, 0) => vec![],                                                   // RDLENGTH 0
            (33, 1) => vec![0, 0, 0, 0, 0, 80, 0],                              // SRV with the root as target
            (33, _) => { let mut v = vec![0, 1, 0, 2, 0x1F, 0x90]; v.extend_from_slice(&[11]); v.extend_from_slice(b"nobody-home"); v.extend_from_slice(&[5]); v.extend_from_slice(b"local"); v.push(0); v }
            (1, _) => vec![127, 0, 0, r.u8()],
            (28, _) => { let mut v = vec![0u8; 16]; v[15] = r.u8(); v }
            (16, _) => vec![3, b'k', b'=', b'v'],
            (12, _) => vec![1, b'x', 0],
            _ => { let n = r.usize(1, 6); r.bytes(n) }
        };
        let class = if r.chance(1, 4) { 0x8001 } else { 1 };
        let sec = if r.chance(3, 4) { 0 } else { 2 };
        m.secs[sec].push(RRM::new(owner.clone(), rtype, class, *r.pick(&[0u32, 1, 120, 0x8000_0000]), Rd::Opaque(rd)));
    }
    if m.secs[0].is_empty() {
        let rec = m.secs[2].pop().unwrap();
        m.secs[0].push(rec);
    }
    // the shape the resolver is looking for: an SRV answer whose address travels in the additional section
    if idx % 5 == 0 {
        let mut srv = vec![0, 1, 0, 2, 0x1F, 0x90];
        srv.extend_from_slice(&[11]); srv.extend_from_slice(b"nobody-home"); srv.extend_from_slice(&[5]); srv.extend_from_slice(b"local"); srv.push(0);
        m.secs[0].insert(0, RRM::new(owner.clone(), 33, 1, 120, Rd::Opaque(srv)));
        let addr: (u16, Vec<u8>) = if idx % 10 == 0 { (28, { let mut v = vec![0u8; 16]; v[15] = 1; v }) } else { (1, vec![127, 0, 0, 9]) };
        m.secs[2].insert(0, RRM::new(owner.clone(), addr.0, 1, 120, Rd::Opaque(addr.1)));
    }
    encode(&m, if r.bool() { Plan::None } else { Plan::Canonical }).bytes
}

/// What a peer "peer1" of `service` puts on the wire when it announces itself (ttl 120) or says goodbye (ttl 0).
fn peer_announcement(service: &str, ttl: u32) -> Vec<u8> {
    let info = InstanceInformation::new("peer1".into()).with_ip_address(Ipv4Addr::new(10, 9, 8, 7).into()).with_port(8080).with_attribute("k".into(), Some("v".into()));
    let full = match Name::new(&format!("peer1.{}", service)) { Ok(n) => n.into_owned(), Err(_) => return vec![] };
    let mut p = Packet::new_reply(0);
    if let Ok(recs) = info.into_records(&full, ttl) {
        for rr in recs {
            p.answers.push(rr.into_owned());
        }
    }
    p.build_bytes_vec_compressed().unwrap_or_default()
}

fn level2(ctx: &mut Ctx) {
    use simple_mdns::{async_discovery, sync_discovery};
    let group: SocketAddr = "224.0.0.251:5353".parse().unwrap();
    let sock = match UdpSocket::bind("0.0.0.0:0") {
        Ok(s) => s,
        Err(e) => {
            ctx.notes.push(format!("level 2 skipped: cannot bind a UDP socket: {}", e));
            ctx.inconclusive.push("level 2 (real services on loopback multicast) could not start".into());
            ctx.count("level2_skipped");
            return;
        }
    };
    let _ = sock.set_read_timeout(Some(Duration::from_millis(40)));
    let _ = sock.set_multicast_loop_v4(true);
    let pid = std::process::id();
    let before = monitor::foreign_panic_count();

    // ---- start the services --------------------------------------------------------------------
    let started = monitor::guard(|| {
        let mut responder = sync_discovery::SimpleMdnsResponder::new(10);
        let rname = format!("marker-r{}.local", pid);
        responder.add_resource(ResourceRecord::new(Name::new(&rname).unwrap().into_owned(), CLASS::IN, 10, RData::A(A { address: 0x7F000001 })));
        let svc_a = format!("_va{}._tcp.local", pid);
        let svc_b = format!("_vb{}._tcp.local", pid);
        let disc_a = sync_discovery::ServiceDiscovery::new(InstanceInformation::new("self".into()).with_port(1), &svc_a, 10);
        let (tx, rx) = std::sync::mpsc::channel();
        let disc_b = sync_discovery::ServiceDiscovery::new_with_scope(InstanceInformation::new("self".into()).with_port(2), &svc_b, 10, Some(tx), simple_mdns::NetworkScope::V4);
        // a discovery whose application dropped the receiving end of its on_discovery channel
        let svc_d = format!("_vd{}._tcp.local", pid);
        let (txd, rxd) = std::sync::mpsc::channel();
        drop(rxd);
        let disc_d = sync_discovery::ServiceDiscovery::new_with_scope(InstanceInformation::new("self".into()).with_port(4), &svc_d, 10, Some(txd), simple_mdns::NetworkScope::V4);
        (responder, rname, svc_a, disc_a, svc_b, disc_b, rx, svc_d, disc_d)
    });
    let (mut responder, rname, svc_a, disc_a, svc_b, disc_b, _rx, svc_d, disc_d) = match started {
        Ok(x) => x,
        Err(pn) => {
            ctx.notes.push(format!("level 2 skipped: starting the sync services panicked: {} at {}", pn.message, pn.location));
            ctx.inconclusive.push("level 2 (real services on loopback multicast) could not start".into());
            ctx.count("level2_skipped");
            return;
        }
    };
    let (disc_a, disc_b, disc_d) = match (disc_a, disc_b, disc_d) {
        (Ok(a), Ok(b), Ok(d)) => (Arc::new(a), Arc::new(b), Arc::new(d)),
        (a, b, _) => {
            ctx.notes.push(format!("level 2 skipped: ServiceDiscovery could not start (multicast unavailable?): {:?} {:?}", a.err().map(|e| e.to_string()), b.err().map(|e| e.to_string())));
            ctx.inconclusive.push("level 2 (real services on loopback multicast) could not start: ServiceDiscovery::new failed".into());
            ctx.count("level2_skipped");
            return;
        }
    };
    // tokio variants
    let rt = tokio::runtime::Builder::new_multi_thread().worker_threads(2).enable_all().build().unwrap();
    let aname = format!("marker-a{}.local", pid);
    let svc_c = format!("_vc{}._tcp.local", pid);
    let svc_e = format!("_ve{}._tcp.local", pid);
    let (mut aresponder, adisc, arx, _adisc_e) = {
        let _g = rt.enter();
        let mut ar = async_discovery::SimpleMdnsResponder::new(10);
        rt.block_on(ar.add_resource(ResourceRecord::new(Name::new(&aname).unwrap().into_owned(), CLASS::IN, 10, RData::A(A { address: 0x7F000002 }))));
        let (tx, rx) = tokio::sync::mpsc::channel(1024);
        let ad = async_discovery::ServiceDiscovery::new_with_scope(InstanceInformation::new("self".into()).with_port(3), &svc_c, 10, Some(tx), simple_mdns::NetworkScope::V4);
        let (txe, rxe) = tokio::sync::mpsc::channel(4);
        drop(rxe);
        let ae = async_discovery::ServiceDiscovery::new_with_scope(InstanceInformation::new("self".into()).with_port(5), &svc_e, 10, Some(txe), simple_mdns::NetworkScope::V4);
        (ar, ad, rx, ae)
    };
    // the application drains its bounded on_discovery channel, as an application that asked for the channel does (a full
    // channel nobody reads would make the listener wait by design, which is not the library's fault)
    let drained = Arc::new(std::sync::atomic::AtomicU64::new(0));
    {
        let d = drained.clone();
        let mut arx = arx;
        rt.spawn(async move {
            while arx.recv().await.is_some() {
                d.fetch_add(1, Ordering::Relaxed);
            }
        });
    }
    // liveness of the application's runtime: a task that only sleeps 25 ms and counts. Everything the harness itself runs on this
    // runtime awaits sockets or timers, so a counter that stands still for 20 s means the library's tasks occupy both workers
    // without ever yielding: the handling of some datagram does not complete
    let beat = Arc::new(std::sync::atomic::AtomicU64::new(0));
    {
        let b = beat.clone();
        rt.spawn(async move {
            loop {
                tokio::time::sleep(Duration::from_millis(25)).await;
                b.fetch_add(1, Ordering::Relaxed);
            }
        });
    }
    let rt_alive = {
        let beat = beat.clone();
        move |wait: Duration| -> bool {
            let (b0, t) = (beat.load(Ordering::Relaxed), Instant::now());
            while t.elapsed() < wait {
                if beat.load(Ordering::Relaxed) != b0 {
                    return true;
                }
                std::thread::sleep(Duration::from_millis(20));
            }
            false
        }
    };
    let mut rt_starved = false;
    let markers = vec![
        Marker { what: "sync SimpleMdnsResponder", name: rname.clone(), qtype: TYPE::A },
        Marker { what: "sync ServiceDiscovery", name: svc_a.clone(), qtype: TYPE::PTR },
        Marker { what: "sync ServiceDiscovery (on_discovery)", name: svc_b.clone(), qtype: TYPE::PTR },
        Marker { what: "tokio SimpleMdnsResponder", name: aname.clone(), qtype: TYPE::A },
        Marker { what: "tokio ServiceDiscovery (on_discovery)", name: svc_c.clone(), qtype: TYPE::PTR },
        Marker { what: "sync ServiceDiscovery (on_discovery receiver dropped)", name: svc_d.clone(), qtype: TYPE::PTR },
        Marker { what: "tokio ServiceDiscovery (on_discovery receiver dropped)", name: svc_e.clone(), qtype: TYPE::PTR },
    ];
    std::thread::sleep(Duration::from_millis(300));
    // all loops must answer before any hostile traffic, otherwise the environment cannot host level 2
    let mut mid: u16 = 0x4000;
    let mut alive: Vec<bool> = Vec::new();
    for m in &markers {
        mid = mid.wrapping_add(1);
        alive.push(probe(ctx, &sock, &group, m, mid, Duration::from_secs(3)));
    }
    if alive.iter().any(|a| !*a) {
        let dead: Vec<&str> = markers.iter().zip(alive.iter()).filter(|(_, a)| !**a).map(|(m, _)| m.what).collect();
        if monitor::foreign_panic_count() > before {
            report_foreign(ctx, "before any hostile datagram");
        }
        ctx.notes.push(format!("level 2 skipped: no marker reply from {:?} before any hostile traffic (multicast loopback unavailable or port 5353 busy)", dead));
        ctx.inconclusive.push(format!("level 2 (real services on loopback multicast) did not run: no marker reply from {:?} before any hostile traffic", dead));
        ctx.count("level2_skipped");
        return;
    }
    ctx.count("level2_services_started");

    // ---- the application keeps using the discoveries while datagrams arrive: announcements (with and without the
    // cache-flush bit) and reads of the known services, on a thread of its own; every call has to come back
    let app_stop = Arc::new(AtomicBool::new(false));
    let app_calls = Arc::new(std::sync::atomic::AtomicU64::new(0));
    let app_last_return = Arc::new(std::sync::Mutex::new(Instant::now()));
    let app_thread = {
        let (a, d, stop, calls, last) = (disc_a.clone(), disc_d.clone(), app_stop.clone(), app_calls.clone(), app_last_return.clone());
        std::thread::Builder::new().name("verif-app".into()).spawn(move || {
            let mut k = 0u64;
            while !stop.load(Ordering::Relaxed) {
                k += 1;
                let r = monitor::guard(|| {
                    match k % 4 {
                        0 => a.announce(true),
                        1 => { let _ = a.get_known_services(); }
                        2 => d.announce(k % 8 == 2),
                        _ => { let _ = d.get_known_services(); }
                    }
                });
                if r.is_err() {
                    break;
                }
                calls.fetch_add(1, Ordering::Relaxed);
                *last.lock().unwrap() = Instant::now();
                std::thread::sleep(Duration::from_millis(15));
            }
        }).ok()
    };

    // ---- resolver threads: query while hostile responses fly ----------------------------------------
    let resolver_stop = Arc::new(AtomicBool::new(false));
    let rs = resolver_stop.clone();
    let resolver_thread = std::thread::Builder::new().name("verif-resolver".into()).spawn(move || {
        let mut queries = 0u64;
        let mut panics: Vec<monitor::PanicRec> = Vec::new();
        let Ok(mut res) = sync_discovery::OneShotMdnsResolver::new() else { return (0, panics) };
        res.set_query_timeout(Duration::from_millis(300));
        while !rs.load(Ordering::Relaxed) {
            match monitor::guard(|| {
                let _ = res.query_service_address("nobody-home.local");
                let _ = res.query_service_address_and_port("nobody-home.local");
                // the raw entry point: whatever it hands back is then parsed by the application
                res.set_unicast_response(queries % 4 == 0);
                let mut p = Packet::new_query(0);
                p.questions.push(Question::new(Name::new("nobody-home.local").unwrap(), TYPE::SRV.into(), CLASS::IN.into(), queries % 4 == 0));
                if let Ok(Some(bytes)) = res.query_packet(p) {
                    let _ = Packet::parse(&bytes).map(|p| p.answers.len());
                }
            }) {
                Ok(()) => queries += 3,
                Err(p) => { panics.push(p); }
            }
        }
        (queries, panics)
    }).ok();
    let ars = resolver_stop.clone();
    let async_resolver = rt.spawn(async move {
        let mut queries = 0u64;
        let Ok(mut res) = async_discovery::OneShotMdnsResolver::new() else { return 0 };
        res.set_query_timeout(Duration::from_millis(300));
        while !ars.load(Ordering::Relaxed) {
            let _ = res.query_service_address("nobody-home.local").await;
            let _ = res.query_service_address_and_port("nobody-home.local").await;
            res.set_unicast_response(queries % 4 == 0);
            let mut p = Packet::new_query(0);
            p.questions.push(Question::new(Name::new("nobody-home.local").unwrap(), TYPE::SRV.into(), CLASS::IN.into(), queries % 4 == 0));
            if let Ok(Some(bytes)) = res.query_packet(p).await {
                let _ = Packet::parse(&bytes).map(|p| p.answers.len());
            }
            queries += 3;
        }
        queries
    });

    // ---- hostile traffic in batches, each followed by the markers ---------------------------------------
    let total = if ctx.slow_tool { 200 } else { ctx.tier.pick(40_000u64, 400_000u64) };
    let batch = 20u64;
    let mut sent = 0u64;
    let mut idx = 0u64;
    let mut inconclusive_markers = 0u64;
    let mut violated = false;
    let mut misses: Vec<u32> = vec![0; markers.len()];
    let svc_names = [svc_a.clone(), svc_b.clone(), svc_c.clone(), svc_d.clone(), svc_e.clone()];
    while sent < total && !violated {
        let mut batch_hex: Vec<String> = Vec::new();
        for _ in 0..batch {
            idx += 1;
            let fam = match idx % 10 { 0 | 1 => "short", 2 => "corpus", 3 | 4 => "hostile-response", 5 => "hostile-query", 6 => "valid", 7 => "resolver-bait", _ => "havoc" };
            let mut d = if fam == "resolver-bait" && idx % 20 == 7 {
                // responses about the very name the resolvers are asking for: records of the asked and of other types,
                // with valid, empty and odd RDATA (what the answer scan of the resolver has to cope with)
                named_bait(ctx, idx)
            } else if fam == "valid" && idx % 40 == 6 {
                // a peer of one of the watched services announces itself, and (next time round) says goodbye with TTL 0
                let which = ((idx / 40) % 5) as usize;
                let goodbye = (idx / 200) % 2 == 1;
                peer_announcement(&svc_names[which], if goodbye { 0 } else { 120 })
            } else if fam == "resolver-bait" {
                // response with id 0 and answers > 0 so that the resolver's peeks let it through
                let mut b = datagram(ctx, if idx % 3 == 0 { "havoc" } else { "hostile-response" }, idx);
                if b.len() >= 12 { b[0] = 0; b[1] = 0; b[2] |= 0x80; if b[6] == 0 && b[7] == 0 { b[7] = 1; } }
                b
            } else if fam == "corpus" {
                let b = datagram(ctx, "corpus", idx % (42 * 6));
                let cut = (idx as usize * 7) % (b.len() + 1);
                b[..cut].to_vec()
            } else {
                datagram(ctx, fam, idx)
            };
            if fam == "hostile-response" || fam == "resolver-bait" {
                // re-target at one of the live services: replace the watched service label
                let target = &svc_names[((idx / 10) % 5) as usize];
                let from = b"\x06_verif";
                let to_label = target.split('.').next().unwrap().as_bytes();
                if to_label.len() == 6 + (pid.to_string().len()) - 3 || true {
                    if let Some(pos) = d.windows(from.len()).position(|w| w == from) {
                        let mut nd = d[..pos].to_vec();
                        nd.push(to_label.len() as u8);
                        nd.extend_from_slice(to_label);
                        nd.extend_from_slice(&d[pos + from.len()..]);
                        // compression pointers after the edit would be off: only use the edit when there are none
                        if !d.iter().any(|b| *b & 0xC0 == 0xC0) {
                            d = nd;
                        }
                    }
                }
            }
            d.truncate(8900);
            let _ = sock.send_to(&d, group);
            ctx.case_bytes(true, &d);
            ctx.count(&format!("level2_datagrams_{}", fam));
            batch_hex.push(hex(&d[..d.len().min(300)]));
            sent += 1;
        }
        // markers: every loop must still answer
        let mut round_ok = vec![false; markers.len()];
        for (mi, m) in markers.iter().enumerate() {
            mid = mid.wrapping_add(1);
            let ok = probe(ctx, &sock, &group, m, mid, Duration::from_secs(2));
            round_ok[mi] = ok;
            if ok {
                ctx.count("level2_marker_replies");
                misses[mi] = 0;
            } else if monitor::foreign_panic_count() > before {
                violated = true;
                break;
            } else {
                inconclusive_markers += 1;
                misses[mi] += 1;
            }
        }
        // a loop that ended without panicking (early return / break) never answers again, while a lost datagram is
        // transient: three consecutive silent rounds (each with retransmissions over 2 s) while other services on the
        // same socket path keep answering decide "the receive loop stopped"
        if !violated {
            for (mi, m) in markers.iter().enumerate() {
                if misses[mi] >= 3 && round_ok.iter().any(|o| *o) {
                    ctx.violation("loop-keeps-running", &format!("service-stopped-answering:{}", m.what),
                        format!("{} did not answer its marker query in {} consecutive rounds although no panic was recorded and other services still answer: its receive loop ended", m.what, misses[mi]),
                        json!({"family": "level2", "idx": idx, "last_batch": batch_hex}));
                    violated = true;
                }
            }
        }
        if !violated && !rt_alive(Duration::from_secs(10)) && !rt_alive(Duration::from_secs(10)) {
            ctx.violation("loop-keeps-running", "tokio-runtime-starved-by-service-tasks",
                "the heartbeat task of the application's tokio runtime (2 workers) has not run for 20 s: tasks of the tokio services occupy every worker without yielding, the handling of a datagram does not complete".into(),
                json!({"family": "level2", "idx": idx, "last_batch": batch_hex}));
            violated = true;
            rt_starved = true;
        }
        if monitor::foreign_panic_count() > before {
            let fps = monitor::take_foreign_panics();
            for fp in &fps {
                let loc = monitor::short_loc(&fp.location);
                ctx.violation("loop-keeps-running", &format!("service-thread-panic@{}", loc),
                    format!("a library thread ({}) panicked at {} while the services handled a batch of datagrams: {}", fp.thread, loc, fp.message),
                    json!({"family": "level2", "idx": idx, "batch": batch_hex}));
            }
            violated = true;
        }
        if ctx.time_up() || rt_starved {
            break;
        }
    }
    ctx.add("level2_tokio_runtime_heartbeats", beat.load(Ordering::Relaxed));
    // ---- the application thread: did its last call come back? --------------------------------------------------
    // (stopped here, before the resolver threads are joined: its announcements are a steady stream of datagrams, and a
    // one-shot resolver only looks at its deadline when the socket has been silent for 100 ms)
    app_stop.store(true, Ordering::Relaxed);
    std::thread::sleep(Duration::from_millis(100));
    let idle = app_last_return.lock().map(|t| t.elapsed()).unwrap_or_default();
    ctx.add("level2_application_calls_during_traffic", app_calls.load(Ordering::Relaxed));
    let app_finished = app_thread.as_ref().map(|h| h.is_finished()).unwrap_or(true);
    if !app_finished && idle > Duration::from_secs(10) {
        ctx.violation("store-stays-usable", "application-call-blocked-during-traffic",
            format!("a call of the application thread (announce / get_known_services on a sync ServiceDiscovery, made while datagrams were being handled) has not returned for {:.0} s", idle.as_secs_f64()),
            json!({"family": "level2", "idx": idx}));
    } else if let Some(h) = app_thread {
        if app_finished {
            let _ = h.join();
        }
    }
    // ---- goodbye storm: announce(true) back to back while responses pour in --------------------------------------------
    // A window of a few instructions inside an application call (say, between two acquisitions of the store lock) only
    // meets the receive thread's write-lock request if both sides are busy all the time: the application thread sends
    // 60 000 goodbyes without pause while three other threads flood the group with small responses.
    if !violated && !ctx.slow_tool {
        let done = Arc::new(AtomicBool::new(false));
        let storm = {
            let (a, done) = (disc_a.clone(), done.clone());
            std::thread::Builder::new().name("verif-storm".into()).spawn(move || {
                let r = monitor::guard(|| {
                    for _ in 0..60_000 {
                        a.announce(true);
                    }
                });
                done.store(true, Ordering::Relaxed);
                r
            }).ok()
        };
        // three senders keep the receive thread of that discovery busy taking the write lock at its full rate
        let small_response = peer_announcement(&svc_a, 120);
        let flooded = Arc::new(std::sync::atomic::AtomicU64::new(0));
        let t0 = Instant::now();
        let senders: Vec<_> = (0..3).map(|_| {
            let (done, flooded, msg) = (done.clone(), flooded.clone(), small_response.clone());
            std::thread::spawn(move || {
                let Ok(s) = UdpSocket::bind("0.0.0.0:0") else { return };
                let _ = s.set_multicast_loop_v4(true);
                let t0 = Instant::now();
                while !done.load(Ordering::Relaxed) && t0.elapsed() < Duration::from_secs(20) {
                    for _ in 0..64 {
                        let _ = s.send_to(&msg, "224.0.0.251:5353");
                    }
                    flooded.fetch_add(64, Ordering::Relaxed);
                }
            })
        }).collect();
        while !done.load(Ordering::Relaxed) && t0.elapsed() < Duration::from_secs(20) {
            std::thread::sleep(Duration::from_millis(20));
        }
        for h in senders {
            let _ = h.join();
        }
        ctx.add("level2_goodbye_storm_flood_datagrams", flooded.load(Ordering::Relaxed));
        if done.load(Ordering::Relaxed) {
            ctx.count("level2_goodbye_storms_completed");
            if let Some(h) = storm {
                if let Ok(Err(pn)) = h.join() {
                    ctx.violation("store-stays-usable", &format!("api-unusable-during-traffic:announce@{}", monitor::short_loc(&pn.location)), format!("announce(true) panicked during the goodbye storm: {}", pn.message), json!({"family": "level2", "idx": idx}));
                    violated = true;
                }
            }
        } else {
            ctx.violation("store-stays-usable", "application-call-blocked-during-traffic",
                "ServiceDiscovery::announce(true), called back to back while responses were being received, has not returned for 20 s: the application thread and the receive thread block each other on the store lock".into(),
                json!({"family": "level2", "idx": idx, "phase": "goodbye-storm"}));
            violated = true;
        }
    }
    // ---- replies far larger than an ordinary datagram, as the real responders send them ------------------------------
    // 60 TXT records of 200 octets under one name: the reply (about 12.8 KB) fits a UDP datagram on loopback and must
    // arrive as a well-formed DNS message (a reply cut at some byte limit is not one)
    if !violated && !ctx.slow_tool {
        let big_r = format!("bigtxt-r{}.local", pid);
        let big_a = format!("bigtxt-a{}.local", pid);
        let filled = monitor::guard(|| {
            for k in 0..60u32 {
                let text = format!("{:03}{}", k, "t".repeat(197));
                let txt = simple_dns::rdata::TXT::new().with_string(&text).unwrap().into_owned();
                responder.add_resource(ResourceRecord::new(Name::new(&big_r).unwrap().into_owned(), CLASS::IN, 10, RData::TXT(txt.clone())));
                rt.block_on(aresponder.add_resource(ResourceRecord::new(Name::new(&big_a).unwrap().into_owned(), CLASS::IN, 10, RData::TXT(txt))));
            }
        });
        // one record that is itself larger than a 9000-byte mDNS message (a TXT record of 44 strings, about 10.8 KB): whatever the
        // service does about such a reply, it keeps running
        let huge_r = format!("hugetxt-r{}.local", pid);
        let huge_a = format!("hugetxt-a{}.local", pid);
        let filled_huge = monitor::guard(|| {
            let mut txt = simple_dns::rdata::TXT::new();
            for k in 0..44u32 {
                txt = txt.with_char_string(simple_dns::CharacterString::new(format!("{:03}{}", k, "h".repeat(242)).as_bytes()).unwrap().into_owned());
            }
            let txt = txt.into_owned();
            responder.add_resource(ResourceRecord::new(Name::new(&huge_r).unwrap().into_owned(), CLASS::IN, 10, RData::TXT(txt.clone())));
            rt.block_on(aresponder.add_resource(ResourceRecord::new(Name::new(&huge_a).unwrap().into_owned(), CLASS::IN, 10, RData::TXT(txt))));
        });
        if filled_huge.is_ok() {
            for (what, name) in [("sync SimpleMdnsResponder (one record above 9000 bytes)", &huge_r), ("tokio SimpleMdnsResponder (one record above 9000 bytes)", &huge_a)] {
                let m = Marker { what, name: name.clone(), qtype: TYPE::TXT };
                mid = mid.wrapping_add(1);
                match probe_reply(&sock, &group, &m, mid, Duration::from_secs(3)) {
                    Some(reply) => {
                        ctx.count("level2_single_record_large_replies_received");
                        ctx.max("level2_largest_reply_bytes", reply.len() as f64);
                        judge_real_reply(ctx, what, &reply);
                    }
                    None => ctx.notes.push(format!("level 2: no reply to the query for one very large record from the {} within 3 s (not judged)", what)),
                }
            }
            if monitor::foreign_panic_count() > before {
                report_foreign(ctx, "while answering a query for a single record larger than an mDNS message");
                violated = true;
            }
        }
        if filled.is_ok() && !violated {
            for (what, name) in [("sync SimpleMdnsResponder (large reply)", &big_r), ("tokio SimpleMdnsResponder (large reply)", &big_a)] {
                let m = Marker { what, name: name.clone(), qtype: TYPE::TXT };
                mid = mid.wrapping_add(1);
                match probe_reply(&sock, &group, &m, mid, Duration::from_secs(3)) {
                    Some(reply) => {
                        ctx.count("level2_large_replies_received");
                        ctx.max("level2_largest_reply_bytes", reply.len() as f64);
                        judge_real_reply(ctx, what, &reply);
                    }
                    None => ctx.notes.push(format!("level 2: no reply to the large-reply query from the {} within 3 s (not judged)", what)),
                }
            }
            if monitor::foreign_panic_count() > before {
                report_foreign(ctx, "while answering a query with a large reply");
                violated = true;
            }
        }
    }
    // ---- a query whose reply cannot be sent in one UDP datagram --------------------------------------------
    // 1400 compressed questions for a name that owns 60 address records: the reply (84000 answers, > 1 MB) cannot be
    // sent; the handling of that datagram must end with the loop still running.
    if !violated && !ctx.slow_tool {
        let bigname = format!("big-{}.local", pid);
        let r = monitor::guard(|| {
            for k in 0..60u32 {
                let rr = ResourceRecord::new(Name::new(&bigname).unwrap().into_owned(), CLASS::IN, 10, RData::A(A { address: 0x0A00_0000 + k }));
                responder.add_resource(rr.clone());
                rt.block_on(aresponder.add_resource(rr));
            }
        });
        if r.is_ok() {
            let mut q = Packet::new_query(0x7777);
            for _ in 0..1400 {
                q.questions.push(Question::new(Name::new(&bigname).unwrap().into_owned(), TYPE::A.into(), CLASS::IN.into(), true));
            }
            if let Ok(bytes) = q.build_bytes_vec_compressed() {
                ctx.case_bytes(true, &bytes);
                ctx.count("level2_datagrams_oversized-reply-query");
                for _ in 0..2 {
                    let _ = sock.send_to(&bytes, group);
                    std::thread::sleep(Duration::from_millis(300));
                }
                let mut silent = vec![0u32; markers.len()];
                for _round in 0..3 {
                    for (mi, m) in markers.iter().enumerate() {
                        mid = mid.wrapping_add(1);
                        if probe(ctx, &sock, &group, m, mid, Duration::from_secs(2)) {
                            ctx.count("level2_marker_replies");
                        } else {
                            silent[mi] += 1;
                        }
                    }
                }
                if monitor::foreign_panic_count() > before {
                    report_foreign(ctx, "while answering a query whose reply is too large to send");
                    violated = true;
                } else if silent.iter().any(|s| *s >= 3) && silent.iter().any(|s| *s == 0) {
                    for (mi, m) in markers.iter().enumerate() {
                        if silent[mi] >= 3 {
                            ctx.violation("loop-keeps-running", &format!("service-stopped-answering-after-unsendable-reply:{}", m.what),
                                format!("{} stopped answering after a query (1400 questions for a name with 60 address records) whose reply is too large for one UDP datagram; no panic was recorded: its receive loop ended", m.what),
                                json!({"family": "level2-oversized", "idx": 0, "query_bytes": bytes.len(), "questions": 1400, "records_for_name": 60}));
                            violated = true;
                        }
                    }
                } else if silent.iter().all(|s| *s >= 3) {
                    ctx.inconclusive.push("no service answered after the oversized-reply probe (network?)".into());
                }
            }
        }
    }
    resolver_stop.store(true, Ordering::Relaxed);
    if let Some(h) = resolver_thread {
        // the resolver's current query ends when its socket has been silent for 100 ms after the deadline: wait for that,
        // but not for ever (other mDNS traffic on the host may keep the socket busy)
        let t0 = Instant::now();
        while !h.is_finished() && t0.elapsed() < Duration::from_secs(20) {
            std::thread::sleep(Duration::from_millis(50));
        }
        if h.is_finished() {
            if let Ok((q, panics)) = h.join() {
                ctx.add("level2_resolver_queries", q);
                for p in panics {
                    let loc = monitor::short_loc(&p.location);
                    ctx.violation("loop-keeps-running", &format!("resolver-panic@{}", loc), format!("OneShotMdnsResolver panicked at {}: {}", loc, p.message), json!({"family": "level2", "idx": idx}));
                }
            }
        } else {
            // blocked on a busy socket, or spinning? a thread that waits for datagrams uses next to no CPU; one that goes round
            // a loop without ever getting hold of (or past) a datagram uses all of it
            let cpu0 = thread_cpu_seconds("verif-resolver");
            std::thread::sleep(Duration::from_secs(5));
            let cpu1 = thread_cpu_seconds("verif-resolver");
            match (cpu0, cpu1) {
                (Some(a), Some(b)) if !h.is_finished() && b - a > 4.5 => {
                    ctx.violation("loop-keeps-running", "resolver-query-spins",
                        format!("a query of the sync OneShotMdnsResolver had not returned 25 s after the hostile traffic stopped and its thread used {:.1} s of CPU in the last 5 s: the handling of a datagram does not complete", b - a),
                        json!({"family": "level2", "idx": idx}));
                }
                _ => {}
            }
            ctx.notes.push("level 2: the sync resolver's last query had not returned 20 s after the traffic stopped (its deadline is only evaluated when the socket is silent; other traffic on the group?); its thread is left behind".into());
        }
    }
    if !rt_starved && !rt_alive(Duration::from_secs(10)) && !rt_alive(Duration::from_secs(10)) {
        ctx.violation("loop-keeps-running", "tokio-runtime-starved-by-service-tasks",
            "the heartbeat task of the application's tokio runtime (2 workers) has not run for 20 s after the traffic: tasks of the tokio services occupy every worker without yielding".into(),
            json!({"family": "level2", "idx": idx}));
        rt_starved = true;
    }
    if !rt_starved {
        if let Ok(q) = rt.block_on(async { tokio::time::timeout(Duration::from_secs(3), async_resolver).await }) {
            ctx.add("level2_async_resolver_queries", q.unwrap_or(0));
        }
    }
    if inconclusive_markers > 0 {
        ctx.add("level2_marker_replies_missing_without_panic", inconclusive_markers);
        if inconclusive_markers > 3 {
            ctx.inconclusive.push(format!("{} marker replies missing without any recorded panic (datagram loss?)", inconclusive_markers));
        }
    }
    // ---- lock-health probes through the public API ---------------------------------------------------
    // each probe runs on a thread of its own and must come back: a lock left held by a library thread (or taken twice by
    // it) shows as a call that never returns
    let responder = Arc::new(std::sync::Mutex::new(responder));
    let aresponder = Arc::new(tokio::sync::Mutex::new(aresponder));
    let adisc = Arc::new(adisc);
    let adisc_e = Arc::new(_adisc_e);
    let handle = rt.handle().clone();
    let probe_rr = || ResourceRecord::new(Name::new("probe.local").unwrap().into_owned(), CLASS::IN, 1, RData::A(A { address: 1 }));
    type Probe = Box<dyn FnOnce() + Send + 'static>;
    let probes: Vec<(&str, Probe)> = vec![
        ("SimpleMdnsResponder::add_resource", { let r = responder.clone(); let rr = probe_rr(); Box::new(move || r.lock().unwrap().add_resource(rr)) }),
        ("SimpleMdnsResponder::remove_resource_record", { let r = responder.clone(); let rr = probe_rr(); Box::new(move || r.lock().unwrap().remove_resource_record(rr)) }),
        ("ServiceDiscovery::get_known_services", { let (a, b, d) = (disc_a.clone(), disc_b.clone(), disc_d.clone()); Box::new(move || { let _ = a.get_known_services(); let _ = b.get_known_services(); let _ = d.get_known_services(); }) }),
        ("ServiceDiscovery::announce", { let (a, b, d) = (disc_a.clone(), disc_b.clone(), disc_d.clone()); Box::new(move || { a.announce(false); b.announce(false); d.announce(false); }) }),
        ("tokio SimpleMdnsResponder::add_resource", { let (r, h, rr) = (aresponder.clone(), handle.clone(), probe_rr()); Box::new(move || h.block_on(async { r.lock().await.add_resource(rr).await })) }),
        ("tokio SimpleMdnsResponder::remove_resource_record", { let (r, h, rr) = (aresponder.clone(), handle.clone(), probe_rr()); Box::new(move || h.block_on(async { r.lock().await.remove_resource_record(rr).await })) }),
        ("tokio ServiceDiscovery::get_known_services", { let (d, e, h) = (adisc.clone(), adisc_e.clone(), handle.clone()); Box::new(move || { if let Ok(d) = &*d { let _ = h.block_on(d.get_known_services()); } if let Ok(e) = &*e { let _ = h.block_on(e.get_known_services()); } }) }),
        ("SimpleMdnsResponder::clear", { let r = responder.clone(); Box::new(move || r.lock().unwrap().clear()) }),
        ("tokio SimpleMdnsResponder::clear", { let (r, h) = (aresponder.clone(), handle.clone()); Box::new(move || h.block_on(async { r.lock().await.clear().await })) }),
    ];
    for (what, f) in probes {
        let (tx, rx) = std::sync::mpsc::channel();
        let _ = std::thread::Builder::new().name("verif-probe".into()).spawn(move || {
            let r = monitor::guard(f);
            let _ = tx.send(r);
        });
        match rx.recv_timeout(Duration::from_secs(10)) {
            Ok(Ok(())) => ctx.count("level2_lock_health_probes_ok"),
            Ok(Err(pn)) => ctx.violation("store-stays-usable", &format!("api-unusable-after-traffic:{}", what), format!("{} panicked after the hostile traffic: {}", what, pn.message), json!({"family": "level2", "idx": idx})),
            Err(_) => ctx.violation("store-stays-usable", &format!("api-blocked-after-traffic:{}", what), format!("{} did not return within 10 s after the traffic: the shared store's lock is held or waited for forever", what), json!({"family": "level2", "idx": idx})),
        }
    }
    super::common::report_lock_discipline(ctx, "store-stays-usable", "level2");
    ctx.add("level2_datagrams_sent", sent);
    ctx.add("level2_tokio_on_discovery_values_drained", drained.load(Ordering::Relaxed));
    rt.shutdown_timeout(Duration::from_millis(200));
}

/// Level 2 over IPv6 (`NetworkScope::V6`, group ff02::fb): the same services on their IPv6 sockets. Smaller than the IPv4 part; where
/// the host has no IPv6 multicast the part is skipped with a note (the IPv4 part decides the property).
fn level2_v6(ctx: &mut Ctx) {
    use simple_mdns::{async_discovery, sync_discovery, NetworkScope};
    let group: SocketAddr = "[ff02::fb]:5353".parse().unwrap();
    let Ok(sock) = UdpSocket::bind("[::]:0") else {
        ctx.notes.push("level 2 / IPv6 skipped: cannot bind an IPv6 UDP socket".into());
        ctx.count("level2_v6_skipped");
        return;
    };
    let _ = sock.set_read_timeout(Some(Duration::from_millis(40)));
    let _ = sock.set_multicast_loop_v6(true);
    let pid = std::process::id();
    let before = monitor::foreign_panic_count();
    let rname = format!("marker6-r{}.local", pid);
    let aname = format!("marker6-a{}.local", pid);
    let svc_a = format!("_wa{}._tcp.local", pid);
    let svc_c = format!("_wc{}._tcp.local", pid);
    let rt = tokio::runtime::Builder::new_multi_thread().worker_threads(2).enable_all().build().unwrap();
    let v6 = std::net::Ipv6Addr::new(0xfe80, 0, 0, 0, 0, 0, 0, 1);
    let started = monitor::guard(|| {
        let mut responder = sync_discovery::SimpleMdnsResponder::new_with_scope(10, NetworkScope::V6);
        responder.add_resource(ResourceRecord::new(Name::new(&rname).unwrap().into_owned(), CLASS::IN, 10, RData::AAAA(simple_dns::rdata::AAAA { address: 1 })));
        let (tx, rx) = std::sync::mpsc::channel();
        let disc_a = sync_discovery::ServiceDiscovery::new_with_scope(InstanceInformation::new("self".into()).with_ip_address(v6.into()).with_port(1), &svc_a, 10, Some(tx), NetworkScope::V6);
        let _g = rt.enter();
        let mut ar = async_discovery::SimpleMdnsResponder::new_with_scope(10, NetworkScope::V6);
        rt.block_on(ar.add_resource(ResourceRecord::new(Name::new(&aname).unwrap().into_owned(), CLASS::IN, 10, RData::AAAA(simple_dns::rdata::AAAA { address: 2 }))));
        let (atx, arx) = tokio::sync::mpsc::channel(1024);
        let ad = async_discovery::ServiceDiscovery::new_with_scope(InstanceInformation::new("self".into()).with_ip_address(v6.into()).with_port(3), &svc_c, 10, Some(atx), NetworkScope::V6);
        (responder, disc_a, rx, ar, ad, arx)
    });
    let (_responder, disc_a, rx, _aresponder, adisc, mut arx) = match started {
        Ok(x) => x,
        Err(pn) => {
            ctx.notes.push(format!("level 2 / IPv6 skipped: starting the IPv6 services panicked: {} at {}", pn.message, pn.location));
            ctx.count("level2_v6_skipped");
            let _ = monitor::take_foreign_panics();
            rt.shutdown_timeout(Duration::from_millis(200));
            return;
        }
    };
    let (Ok(disc_a), Ok(_adisc)) = (disc_a, adisc) else {
        ctx.notes.push("level 2 / IPv6 skipped: an IPv6 ServiceDiscovery could not start (no IPv6 multicast on this host?)".into());
        ctx.count("level2_v6_skipped");
        rt.shutdown_timeout(Duration::from_millis(200));
        return;
    };
    // the application drains its channels
    rt.spawn(async move { while arx.recv().await.is_some() {} });
    let _drain = std::thread::Builder::new().name("verif-drain6".into()).spawn(move || { while rx.recv().is_ok() {} });
    let beat = Arc::new(std::sync::atomic::AtomicU64::new(0));
    {
        let b = beat.clone();
        rt.spawn(async move {
            loop {
                tokio::time::sleep(Duration::from_millis(25)).await;
                b.fetch_add(1, Ordering::Relaxed);
            }
        });
    }
    let markers = vec![
        Marker { what: "sync SimpleMdnsResponder (IPv6)", name: rname.clone(), qtype: TYPE::AAAA },
        Marker { what: "sync ServiceDiscovery (IPv6, on_discovery)", name: svc_a.clone(), qtype: TYPE::PTR },
        Marker { what: "tokio SimpleMdnsResponder (IPv6)", name: aname.clone(), qtype: TYPE::AAAA },
        Marker { what: "tokio ServiceDiscovery (IPv6, on_discovery)", name: svc_c.clone(), qtype: TYPE::PTR },
    ];
    std::thread::sleep(Duration::from_millis(300));
    let mut mid: u16 = 0x6000;
    for m in &markers {
        mid = mid.wrapping_add(1);
        if !probe(ctx, &sock, &group, m, mid, Duration::from_secs(3)) {
            if monitor::foreign_panic_count() > before {
                report_foreign(ctx, "before any hostile IPv6 datagram");
            }
            ctx.notes.push(format!("level 2 / IPv6 skipped: no marker reply from the {} before any hostile traffic (no IPv6 multicast loopback on this host?)", m.what));
            ctx.count("level2_v6_skipped");
            rt.shutdown_timeout(Duration::from_millis(200));
            return;
        }
    }
    ctx.count("level2_v6_services_started");
    let total = if ctx.slow_tool { 100 } else { ctx.tier.pick(6_000u64, 80_000u64) };
    let svc_names = [svc_a.clone(), svc_c.clone()];
    let (mut sent, mut idx, mut violated) = (0u64, 0u64, false);
    let mut misses: Vec<u32> = vec![0; markers.len()];
    while sent < total && !violated {
        let mut batch_hex: Vec<String> = Vec::new();
        for _ in 0..20 {
            idx += 1;
            let fam = match idx % 8 { 0 => "short", 1 => "corpus", 2 | 3 => "hostile-response", 4 => "hostile-query", 5 => "valid", _ => "havoc" };
            let mut d = if fam == "valid" && idx % 16 == 5 {
                peer_announcement(&svc_names[((idx / 16) % 2) as usize], if (idx / 64) % 2 == 1 { 0 } else { 120 })
            } else {
                datagram(ctx, fam, 1_000_000 + idx)
            };
            if fam == "hostile-response" && !d.iter().any(|b| *b & 0xC0 == 0xC0) {
                let to_label = svc_names[((idx / 8) % 2) as usize].split('.').next().unwrap().as_bytes().to_vec();
                let from = b"\x06_verif";
                if let Some(pos) = d.windows(from.len()).position(|w| w == from) {
                    let mut nd = d[..pos].to_vec();
                    nd.push(to_label.len() as u8);
                    nd.extend_from_slice(&to_label);
                    nd.extend_from_slice(&d[pos + from.len()..]);
                    d = nd;
                }
            }
            d.truncate(8900);
            let _ = sock.send_to(&d, group);
            ctx.case_bytes(true, &d);
            ctx.count("level2_v6_datagrams");
            batch_hex.push(hex(&d[..d.len().min(300)]));
            sent += 1;
        }
        let mut round_ok = vec![false; markers.len()];
        for (mi, m) in markers.iter().enumerate() {
            mid = mid.wrapping_add(1);
            let ok = probe(ctx, &sock, &group, m, mid, Duration::from_secs(2));
            round_ok[mi] = ok;
            if ok {
                ctx.count("level2_v6_marker_replies");
                misses[mi] = 0;
            } else if monitor::foreign_panic_count() > before {
                break;
            } else {
                misses[mi] += 1;
                ctx.count("level2_v6_marker_replies_missing_without_panic");
            }
        }
        for (mi, m) in markers.iter().enumerate() {
            if misses[mi] >= 3 && round_ok.iter().any(|o| *o) {
                ctx.violation("loop-keeps-running", &format!("service-stopped-answering:{}", m.what),
                    format!("{} did not answer its marker query in {} consecutive rounds although no panic was recorded and other services still answer: its receive loop ended", m.what, misses[mi]),
                    json!({"family": "level2-v6", "idx": idx, "last_batch": batch_hex}));
                violated = true;
            }
        }
        let b0 = beat.load(Ordering::Relaxed);
        let t = Instant::now();
        while !violated && beat.load(Ordering::Relaxed) == b0 {
            if t.elapsed() > Duration::from_secs(20) {
                ctx.violation("loop-keeps-running", "tokio-runtime-starved-by-service-tasks",
                    "the heartbeat task of the application's tokio runtime (2 workers, IPv6 services) has not run for 20 s: tasks of the tokio services occupy every worker without yielding".into(),
                    json!({"family": "level2-v6", "idx": idx, "last_batch": batch_hex}));
                violated = true;
            }
            std::thread::sleep(Duration::from_millis(20));
        }
        if monitor::foreign_panic_count() > before {
            for fp in &monitor::take_foreign_panics() {
                let loc = monitor::short_loc(&fp.location);
                ctx.violation("loop-keeps-running", &format!("service-thread-panic@{}", loc),
                    format!("a library thread ({}) panicked at {} while the IPv6 services handled a batch of datagrams: {}", fp.thread, loc, fp.message),
                    json!({"family": "level2-v6", "idx": idx, "batch": batch_hex}));
            }
            violated = true;
        }
        if ctx.time_up() {
            break;
        }
    }
    // the store of the sync discovery is still usable by the application
    if !violated {
        let (tx, rx) = std::sync::mpsc::channel();
        let d = Arc::new(disc_a);
        let d2 = d.clone();
        let _ = std::thread::Builder::new().name("verif-probe6".into()).spawn(move || {
            let r = monitor::guard(|| { let _ = d2.get_known_services(); d2.announce(false); });
            let _ = tx.send(r);
        });
        match rx.recv_timeout(Duration::from_secs(10)) {
            Ok(Ok(())) => ctx.count("level2_v6_lock_health_probes_ok"),
            Ok(Err(pn)) => ctx.violation("store-stays-usable", "api-unusable-after-traffic:ServiceDiscovery (IPv6)", format!("get_known_services / announce panicked after the hostile IPv6 traffic: {}", pn.message), json!({"family": "level2-v6", "idx": idx})),
            Err(_) => ctx.violation("store-stays-usable", "api-blocked-after-traffic:ServiceDiscovery (IPv6)", "get_known_services / announce did not return within 10 s after the IPv6 traffic".into(), json!({"family": "level2-v6", "idx": idx})),
        }
    }
    super::common::report_lock_discipline(ctx, "store-stays-usable", "level2-v6");
    rt.shutdown_timeout(Duration::from_millis(200));
}

/// CPU seconds (user + system) used so far by the thread of this process that carries `name` (Linux /proc; None elsewhere)
fn thread_cpu_seconds(name: &str) -> Option<f64> {
    for e in std::fs::read_dir("/proc/self/task").ok()? {
        let dir = e.ok()?.path();
        let comm = std::fs::read_to_string(dir.join("comm")).unwrap_or_default();
        if comm.trim() == name {
            let stat = std::fs::read_to_string(dir.join("stat")).ok()?;
            // fields after the parenthesised command name: state is field 3, utime 14, stime 15 (clock ticks, 100 per second)
            let rest = &stat[stat.rfind(')')? + 2..];
            let f: Vec<&str> = rest.split_whitespace().collect();
            let (ut, st): (f64, f64) = (f.get(11)?.parse().ok()?, f.get(12)?.parse().ok()?);
            return Some((ut + st) / 100.0);
        }
    }
    None
}

fn report_foreign(ctx: &mut Ctx, when: &str) {
    for fp in monitor::take_foreign_panics() {
        let loc = monitor::short_loc(&fp.location);
        ctx.violation("loop-keeps-running", &format!("service-thread-panic@{}", loc), format!("library thread panicked {} at {}: {}", when, loc, fp.message), json!({"family": "level2", "idx": 0}));
    }
}

/// Coverage-guided entry point (and its replay): the input is a sequence of datagrams, each prefixed by a 2-byte length,
/// delivered one after the other to the three pipelines over one fresh world.
pub fn fuzz_sequence(ctx: &mut Ctx, family: &str, data: &[u8]) {
    let mut wr = Rng::new(0xF0220);
    let mut w = new_world(&mut wr);
    let mut pos = 0usize;
    let mut k = 0u64;
    while pos + 2 <= data.len() && k < 8 {
        let l = u16::from_be_bytes([data[pos], data[pos + 1]]) as usize;
        let end = (pos + 2 + l.min(9000)).min(data.len());
        level1_one(ctx, &mut w, &mut wr, family, k, &data[pos + 2..end]);
        pos = end;
        k += 1;
    }
}

/// Seed inputs for the coverage-guided target: short sequences of generated datagrams.
pub fn fuzz_seeds(seed: u64) -> Vec<Vec<u8>> {
    let ctx = Ctx::new("C14", Tier::Quick, seed, 0, 1);
    let fams = ["valid", "hostile-response", "hostile-query", "corpus", "short"];
    (0..240u64).map(|i| {
        let mut out = Vec::new();
        for j in 0..(1 + i % 3) {
            let d = datagram(&ctx, fams[((i + j) % 5) as usize], i * 7 + j);
            let d = &d[..d.len().min(9000)];
            out.extend_from_slice(&(d.len() as u16).to_be_bytes());
            out.extend_from_slice(d);
        }
        out
    }).collect()
}

pub fn run(ctx: &mut Ctx) {
    if let Some(c) = ctx.replay_case.clone() {
        if c["family"].as_str() == Some("fuzz-artifact") {
            if let Some(b) = c["bytes"].as_str().and_then(unhex) {
                fuzz_sequence(ctx, "fuzz-artifact", &b);
                return;
            }
        }
        if let Some(b) = c["bytes"].as_str().and_then(unhex) {
            let mut wr = Rng::new(ctx.seed);
            let mut w = new_world(&mut wr);
            level1_one(ctx, &mut w, &mut wr, c["family"].as_str().unwrap_or("replay"), c["idx"].as_u64().unwrap_or(0), &b);
            return;
        }
    }
    let only_l2 = std::env::var_os("VERIF_C14_LEVEL2_ONLY").is_some();
    if ctx.shard == 0 && std::env::var_os("VERIF_C14_NO_LEVEL2").is_none() && !cfg!(miri) {
        level2(ctx);
        if std::env::var_os("VERIF_C14_NO_V6").is_none() && !ctx.slow_tool {
            level2_v6(ctx);
        }
    }
    if !only_l2 {
        level1(ctx);
    }
}
