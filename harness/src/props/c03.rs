//! C03 – name compression is transparent.

use super::common::*;
use crate::ctx::*;
use crate::gen::{Cfg, Gen};
use crate::model::*;
use crate::refdns::*;
use crate::rng::fnv;
use serde_json::json;

pub fn meta() -> Meta {
    Meta {
        rule: "packets generated with heavy suffix sharing between owner, question and RDATA names (plus a size sweep that places \
the first occurrence of a name at every offset 16370..16400 and repeats it later, and messages up to 65535 bytes) are serialised \
with and without compression; both outputs are parsed and compared with each other and with the model; len(compressed) <= \
len(plain); the writer-based compressed entry point is also run into a stream that already holds 1/2/7/300 bytes (a growable cursor, or a writer that accepts 3 bytes per call) and its message must parse to the same packet. non-trivial = the compressed output contains at least one pointer (independent walker); distinct = hash of the model",
        assumptions: &["same domain as C02", "pointer counting uses the reference typed walker"],
        exhaustive: false,
        min_distinct: 500,
    }
}

pub fn check_one(ctx: &mut Ctx, family: &str, idx: u64, p: &PktM) {
    let Some((plain, obs_plain)) = roundtrip(ctx, family, idx, p, false) else {
        ctx.case(false, 0);
        return;
    };
    let Some((comp, obs_comp)) = roundtrip(ctx, family, idx, p, true) else {
        ctx.case(false, 0);
        return;
    };
    let ptrs = count_pointers(&comp).unwrap_or(0);
    ctx.case(ptrs > 0, fnv(format!("{:?}", p).as_bytes()));
    ctx.add("pointers_seen", ptrs as u64);
    ctx.add("bytes_saved", plain.len().saturating_sub(comp.len()) as u64);
    if comp.len() > 16384 {
        ctx.count("compressed_messages_over_16384");
    }
    ctx.max("message_bytes", plain.len() as f64);
    if comp.len() > plain.len() {
        ctx.violation(
            "never-longer",
            "compressed-longer",
            format!("compressed output is {} bytes, plain is {}", comp.len(), plain.len()),
            gen_case(family, idx, p, json!({})),
        );
    }
    if let Some(d) = diff_pkt(&obs_plain, &obs_comp) {
        ctx.violation(
            "compression-transparent",
            &format!("compressed-differs:{}:{}", diff_type(&obs_plain, &obs_comp), diff_field(&obs_plain, &obs_comp)),
            format!("parse(compressed) differs from parse(plain): {}", d),
            gen_case(family, idx, p, json!({"plain_len": plain.len(), "compressed_len": comp.len()})),
        );
    } else if let Some(d) = diff_pkt(p, &obs_comp) {
        ctx.violation(
            "compression-transparent",
            &format!("compressed-differs-from-model:{}:{}", diff_type(p, &obs_comp), diff_field(p, &obs_comp)),
            format!("parse(compressed) differs from the original packet: {}", d),
            gen_case(family, idx, p, json!({})),
        );
    } else {
        ctx.count("transparent");
    }
    // the writer-based compressed entry point, into a stream that already holds k bytes: the message written there must
    // be just as transparent (its pointers and length back-patches are relative to the message, not to the stream)
    let k = [1usize, 2, 7, 300][(idx % 4) as usize];
    let streamed = crate::monitor::guard(|| {
        let lib = crate::bridge::to_lib(p).map_err(|e| e.to_string())?;
        if (idx / 4) % 3 == 0 {
            let mut cur = std::io::Cursor::new(vec![0xEEu8; k]);
            cur.set_position(k as u64);
            lib.write_compressed_to(&mut cur).map_err(|e| format!("{:?}", e))?;
            Ok::<Vec<u8>, String>(cur.into_inner())
        } else if (idx / 4) % 3 == 1 {
            // a stream that already holds data beyond the place where the message goes (a reused buffer, a file opened
            // without truncation): the message is what lies between the start and the final stream position
            let mut cur = std::io::Cursor::new(vec![0xEEu8; k + plain.len() + 40]);
            cur.set_position(k as u64);
            lib.write_compressed_to(&mut cur).map_err(|e| format!("{:?}", e))?;
            let end = cur.position() as usize;
            let mut all = cur.into_inner();
            if all[end.min(all.len())..].iter().any(|b| *b != 0xEE) {
                return Err("bytes after the final stream position were changed".into());
            }
            all.truncate(end);
            Ok::<Vec<u8>, String>(all)
        } else {
            // the same through a writer that takes at most 3 bytes per call and is interrupted now and then
            let mut w = super::c04::ShortWriter { buf: vec![0xEEu8; k], pos: k, calls: 0 };
            lib.write_compressed_to(&mut w).map_err(|e| format!("{:?}", e))?;
            Ok::<Vec<u8>, String>(w.buf)
        }
    });
    match streamed {
        Err(pn) => ctx.panic_violation("write_compressed_to at a non-zero stream position", &pn, gen_case(family, idx, p, json!({"stream_offset": k}))),
        Ok(Err(e)) => ctx.violation("build-succeeds", "build-error:write_compressed_to@k", format!("write_compressed_to at stream offset {} failed: {}", k, e), gen_case(family, idx, p, json!({"stream_offset": k}))),
        Ok(Ok(all)) => {
            let msg = &all[k.min(all.len())..];
            ctx.count("streamed_outputs_checked");
            if all[..k.min(all.len())].iter().any(|b| *b != 0xEE) {
                ctx.violation("compression-transparent", "streamed-output-overwrites-earlier-bytes", format!("write_compressed_to at stream offset {} changed bytes before its starting position", k), gen_case(family, idx, p, json!({"stream_offset": k})));
            } else if msg.len() > plain.len() {
                ctx.violation("never-longer", "compressed-longer:streamed", format!("compressed output at stream offset {} is {} bytes, plain is {}", k, msg.len(), plain.len()), gen_case(family, idx, p, json!({"stream_offset": k})));
            } else {
                match parse_obs(msg) {
                    Ok(Ok(o)) => {
                        if let Some(d) = diff_pkt(&obs_plain, &o) {
                            ctx.violation("compression-transparent", &format!("streamed-compressed-differs:{}:{}", diff_type(&obs_plain, &o), diff_field(&obs_plain, &o)),
                                format!("parse(write_compressed_to at stream offset {}) differs from parse(plain): {}", k, d), gen_case(family, idx, p, json!({"stream_offset": k, "bytes": hex(&msg[..msg.len().min(600)])})));
                        }
                    }
                    Ok(Err(e)) => ctx.violation("parse-own-output", &format!("parse-own-output:write_compressed_to@k:{}", first_type(p)),
                        format!("Packet::parse rejected the output of write_compressed_to at stream offset {}: {}", k, e), gen_case(family, idx, p, json!({"stream_offset": k, "bytes": hex(&msg[..msg.len().min(600)])}))),
                    Err(pn) => ctx.panic_violation("Packet::parse (own streamed output)", &pn, gen_case(family, idx, p, json!({"stream_offset": k}))),
                }
            }
        }
    }
}

/// A packet whose name `n` first appears at wire offset `off` (padding with opaque records), then reappears.
pub fn window_packet(r: &mut crate::rng::Rng, off: usize) -> PktM {
    let mut p = PktM { id: off as u16, ..Default::default() };
    // padding records: owner root (1 byte) + 10 + rdata
    let mut pos = 12usize;
    let unit = 1 + 10;
    while off - pos > unit + 2000 + unit {
        p.secs[0].push(RecSem { name: vec![], rtype: 999, class: 1, flush: false, ttl: 0, rd: Rd::Opaque(vec![0xAB; 2000]) });
        pos += unit + 2000;
    }
    // final pad so that the next owner name starts exactly at `off`
    let rest = off - pos;
    if rest >= unit + 1 {
        p.secs[0].push(RecSem { name: vec![], rtype: 999, class: 1, flush: false, ttl: 0, rd: Rd::Opaque(vec![0xCD; rest - unit]) });
    } else if rest > 0 {
        // cannot pad by fewer than 12 bytes with a record: shrink the previous pad instead
        if let Some(last) = p.secs[0].last_mut() {
            if let Rd::Opaque(v) = &mut last.rd {
                let n = v.len() - (unit + 1 - rest);
                v.truncate(n);
            }
        }
        p.secs[0].push(RecSem { name: vec![], rtype: 999, class: 1, flush: false, ttl: 0, rd: Rd::Opaque(vec![0xEF; 1]) });
    }
    let base: NameM = vec![b"first".to_vec(), b"beyond".to_vec(), b"example".to_vec()];
    let variants: Vec<NameM> = vec![
        base.clone(),
        base[1..].to_vec(),
        { let mut v = base.clone(); v.insert(0, b"sub".to_vec()); v },
        vec![b"example".to_vec()],
    ];
    // first occurrence at `off`
    p.secs[0].push(RecSem { name: base.clone(), rtype: 1, class: 1, flush: false, ttl: 1, rd: Rd::Fields(vec![F::Int(1)]) });
    for _ in 0..r.usize(2, 6) {
        let n = r.pick(&variants).clone();
        let rec = match r.below(4) {
            0 => RecSem { name: n, rtype: 2, class: 1, flush: false, ttl: 2, rd: Rd::Fields(vec![F::Name(r.pick(&variants).clone())]) },
            1 => RecSem { name: n, rtype: 15, class: 1, flush: false, ttl: 2, rd: Rd::Fields(vec![F::Int(10), F::Name(r.pick(&variants).clone())]) },
            2 => RecSem { name: n, rtype: 33, class: 1, flush: false, ttl: 2, rd: Rd::Fields(vec![F::Int(1), F::Int(2), F::Int(3), F::Name(r.pick(&variants).clone())]) },
            _ => RecSem { name: n, rtype: 1, class: 1, flush: true, ttl: 3, rd: Rd::Fields(vec![F::Int(7)]) },
        };
        let s = r.usize(0, 2);
        p.secs[s].push(rec);
    }
    p
}

pub fn share_cfg() -> Cfg {
    Cfg { share: 85, max_entries: 6, max_rest: 12, edns: 15, ..Default::default() }
}

pub fn run(ctx: &mut Ctx) {
    if let Some(tape) = ctx.tape_case() {
        // replay of a case found by the coverage-guided `model` target: the tape drives every generator decision
        super::model_case("C03", ctx, &tape);
        return;
    }
    let tier = ctx.tier;
    let scale = if ctx.slow_tool { 0 } else { tier.pick(8u64, 800u64) };

    let n = if ctx.slow_tool { 30 } else { 12_000 * scale };
    for idx in 0..n {
        if !ctx.take("shared", idx) {
            continue;
        }
        if ctx.stop("shared") {
            break;
        }
        let mut r = ctx.rng("shared", idx);
        let mut cfg = share_cfg();
        if idx % 3 == 0 {
            // compressible RDATA types dominate
            cfg.types = vec![2, 5, 12, 15, 6, 14, 17, 18, 21, 23, 3, 4, 7, 8, 9, 33, 36, 35, 46, 47, 64, 45];
        }
        cfg.binary_labels = idx % 2 == 0;
        let mut g = Gen::new(&mut r, cfg);
        let p = g.packet();
        ctx.sample("shared", || pkt_json(&p));
        check_one(ctx, "shared", idx, &p);
    }

    // values the application edited through public fields after building or parsing them: NSEC records whose window list is
    // no longer in increasing order (the plain writer sorts what it writes; whatever the compressing writer does, both outputs
    // must parse, and to the same packet)
    for idx in 0..if ctx.slow_tool { 6 } else { tier.pick(1_500u64, 60_000u64) } {
        if !ctx.take("edited-nsec", idx) {
            continue;
        }
        let mut r = ctx.rng("edited-nsec", idx);
        let mut g = Gen::new(&mut r, share_cfg());
        let mut p = g.packet();
        for k in 0..1 + idx % 2 {
            let mut rec = g.record_of(47);
            if let Some(first) = p.secs.iter().flatten().next() {
                if k == 0 { rec.name = first.name.clone(); }
            }
            p.secs[((idx + k) % 3) as usize].push(rec);
        }
        let outcome = crate::monitor::guard(|| {
            let mut lib = crate::bridge::to_lib(&p).map_err(|e| e.to_string())?;
            let mut edited = 0u64;
            for rr in lib.answers.iter_mut().chain(lib.name_servers.iter_mut()).chain(lib.additional_records.iter_mut()) {
                if let simple_dns::rdata::RData::NSEC(n) = &mut rr.rdata {
                    if n.type_bit_maps.len() >= 2 {
                        if idx % 3 == 0 { n.type_bit_maps.swap(0, 1) } else { n.type_bit_maps.reverse() }
                        edited += 1;
                    }
                }
            }
            let plain = lib.build_bytes_vec().map_err(|e| format!("build_bytes_vec: {:?}", e))?;
            let comp = lib.build_bytes_vec_compressed().map_err(|e| format!("build_bytes_vec_compressed: {:?}", e))?;
            Ok::<_, String>((edited, plain, comp))
        });
        let case = || gen_case("edited-nsec", idx, &p, json!({}));
        match outcome {
            Err(pn) => ctx.panic_violation("building a packet with edited NSEC windows", &pn, case()),
            Ok(Err(e)) => { ctx.count("edited_nsec_outside_constructor_domain"); let _ = e; }
            Ok(Ok((edited, plain, comp))) => {
                ctx.case(edited > 0, fnv(&plain) ^ 0xED17);
                ctx.add("nsec_records_with_reordered_windows", edited);
                match (parse_obs(&plain), parse_obs(&comp)) {
                    (Ok(Ok(a)), Ok(Ok(b))) => {
                        if let Some(d) = diff_pkt(&a, &b) {
                            ctx.violation("compression-transparent", &format!("compressed-differs:{}:{}", diff_type(&a, &b), diff_field(&a, &b)), format!("parse(compressed) differs from parse(plain) for a packet with edited NSEC windows: {}", d), case());
                        } else {
                            ctx.count("edited_values_transparent");
                        }
                    }
                    (Ok(Ok(_)), Ok(Err(e))) => ctx.violation("parse-own-output", "parse-own-output:build_bytes_vec_compressed:NSEC-edited", format!("the plain output parses, the compressed output of the same packet is rejected: {}", e), case()),
                    (Ok(Err(_)), _) => ctx.count("edited_nsec_plain_output_rejected_(outside_the_property)"),
                    (Err(pn), _) | (_, Err(pn)) => ctx.panic_violation("Packet::parse (own output)", &pn, case()),
                }
            }
        }
    }

    // suffix chains: every name is one new label in front of the previous name, so the compressing writer emits a label and
    // a pointer to the previous name, which is itself a label and a pointer ... reading the d-th name back takes d-1 jumps.
    // Depths up to 120 (a name of 1-octet labels stays under 255 octets); names as owners and inside compressible RDATA.
    for idx in 0..if ctx.slow_tool { 4 } else { tier.pick(600u64, 30_000u64) } {
        if !ctx.take("suffix-chain", idx) {
            continue;
        }
        let mut r = ctx.rng("suffix-chain", idx);
        let depth = if ctx.slow_tool { 20 + idx as usize * 10 } else if idx < 119 { 2 + idx as usize } else { r.usize(2, 120) };
        let wide = idx % 5 == 4 && depth <= 40;
        let mut p = PktM { id: idx as u16, ..Default::default() };
        let mut cur: NameM = if idx % 3 == 0 { vec![] } else { vec![b"local".to_vec()] };
        let depth = depth.min(if cur.is_empty() { 120 } else { 117 });
        for k in 0..depth {
            let lab: Vec<u8> = if wide { format!("l{}", k).into_bytes() } else { vec![b'a' + (r.below(26) as u8)] };
            cur.insert(0, lab);
            let rec = match (idx + k as u64) % 4 {
                0 => RecSem { name: cur.clone(), rtype: 1, class: 1, flush: false, ttl: k as u32, rd: Rd::Fields(vec![F::Int(k as u64)]) },
                1 => RecSem { name: vec![b"x".to_vec()], rtype: 12, class: 1, flush: false, ttl: 9, rd: Rd::Fields(vec![F::Name(cur.clone())]) },
                2 => RecSem { name: cur.clone(), rtype: 2, class: 1, flush: true, ttl: 7, rd: Rd::Fields(vec![F::Name(cur[1..].to_vec())]) },
                _ => RecSem { name: cur.clone(), rtype: 15, class: 1, flush: false, ttl: 5, rd: Rd::Fields(vec![F::Int(10), F::Name(cur.clone())]) },
            };
            p.secs[(k * 3 / depth.max(1)).min(2)].push(rec);
        }
        // the deepest name once more at the end, and as a question
        p.secs[2].push(RecSem { name: cur.clone(), rtype: 1, class: 1, flush: false, ttl: 1, rd: Rd::Fields(vec![F::Int(1)]) });
        ctx.add("suffix_chain_packets", 1);
        ctx.add(&format!("suffix_chain_depth_{}", match depth { 0..=16 => "up_to_16", 17..=40 => "17_to_40", 41..=80 => "41_to_80", _ => "over_80" }), 1);
        ctx.sample("suffix-chain", || json!({"depth": depth, "records": p.secs.iter().map(|s| s.len()).sum::<usize>()}));
        check_one(ctx, "suffix-chain", idx, &p);
    }

    // size sweep: first occurrence at every offset of the window around 16384
    if !ctx.slow_tool {
        let reps = tier.pick(4u64, 60u64);
        for rep in 0..reps {
            for off in 16360..=16400u64 {
                let idx = rep * 100_000 + off;
                if !ctx.take("window", idx) {
                    continue;
                }
                if ctx.stop("window") {
                    break;
                }
                let mut r = ctx.rng("window", idx);
                let p = window_packet(&mut r, off as usize);
                ctx.add("window_sweep_packets", 1);
                ctx.sample("window", || json!({"first_occurrence_offset": off, "records": p.secs[0].len()}));
                check_one(ctx, "window", idx, &p);
            }
        }
        // large messages with sharing throughout
        let nbig = tier.pick(64u64, 4000u64);
        for idx in 0..nbig {
            if !ctx.take("big", idx) {
                continue;
            }
            if ctx.stop("big") {
                break;
            }
            let mut r = ctx.rng("big", idx);
            let target = r.usize(14_000, 64_000);
            let mut g = Gen::new(&mut r, Cfg { share: 80, max_rest: 600, ..Default::default() });
            let mut p = PktM { id: idx as u16, ..Default::default() };
            let mut size = 12usize;
            loop {
                let rec = g.record();
                let add = name_wire_len(&rec.name) + 10 + encode_rdata_plain(rec.rtype, &rec.rd).len();
                if size + add > target {
                    break;
                }
                size += add;
                let s = g.r.usize(0, 2);
                p.secs[s].push(rec);
            }
            ctx.add("big_packets", 1);
            check_one(ctx, "big", idx, &p);
        }
    }
}
