//! C20 – cached discovery records expire on time.

use super::c13::{ident_of, Ident};
use crate::bridge;
use crate::ctx::*;
use crate::model::*;
use crate::monitor;
use crate::refdns::*;
use crate::rng::{fnv, Rng};
use serde_json::{json, Value};
use simple_mdns::verif::{DomainResourceFilter, ResourceRecordManager};
use std::collections::BTreeMap;
use std::time::{Duration, Instant};

pub fn meta() -> Meta {
    Meta {
        rule: "histories of 6..14 steps over add-authoritative, receive-from-network(ttl in {0,1,2,1000,2^31-1,2^31,2^32-1}, cache-flush; either add_cached_resource directly or a response packet through the real sync / tokio ingest functions, with and without on_discovery channel), re-add, remove, clear and real sleeps of {0, 0.4, 1.1, 2.1} s \
on 8 record identities under collision-free names (x, a.x, b.x, c.a.x); after every step the store is queried with the authoritative (with/without subdomains), cached \
and combined filters. Every library call is bracketed by two Instant readings; the model keeps per identity Authoritative | Cached{added in [a0,a1], effective ttl}. \
Cached record: must be returned if the query ended before a0+ttl, must not be returned if it began at or after a1+ttl (in between either); authoritative: always by \
authoritative/all filters, never by the cached filter; removed/cleared/foreign-name records never. Authoritative is sticky against a later add-cached. Histories run in \
parallel threads, each with its own store; under Miri the same workload runs on the virtual clock. non-trivial = query observation that was decided (not in the tolerance \
band) on a non-empty model; distinct = hash of (model state, filter, name, decision vector)",
        assumptions: &["Instant is monotonic; the tolerance band is the width of the bracketing interval (microseconds), TTLs are whole seconds"],
        exhaustive: false,
        min_distinct: 300,
    }
}

#[derive(Clone, Debug)]
enum Kind {
    Auth,
    Cached { a0: Instant, a1: Instant, ttl: u64 },
}

#[derive(Default)]
struct Local {
    counters: BTreeMap<String, u64>,
    hashes: Vec<u64>,
    evals: u64,
    violations: Vec<(String, String, String, Value)>,
    log: Vec<String>,
}
impl Local {
    fn count(&mut self, k: &str) {
        *self.counters.entry(k.to_string()).or_insert(0) += 1;
    }
}

fn names() -> Vec<NameM> {
    let l = |s: &str| s.as_bytes().to_vec();
    vec![vec![l("x")], vec![l("a"), l("x")], vec![l("b"), l("x")], vec![l("c"), l("a"), l("x")]]
}

fn identities() -> Vec<RecSem> {
    let mut v = Vec::new();
    for n in names() {
        for k in 1..=2u64 {
            v.push(RecSem { name: n.clone(), rtype: 1, class: 1, flush: false, ttl: 0, rd: Rd::Fields(vec![F::Int(k)]) });
        }
    }
    v
}

fn under(a: &NameM, b: &NameM, sub: bool) -> bool {
    a == b || (sub && a.len() > b.len() && a[a.len() - b.len()..] == b[..])
}

fn history(seed: u64, idx: u64, virtual_clock: bool) -> Local {
    let mut out = Local::default();
    let mut r = Rng::for_case(seed, "c20-history", idx);
    let ids = identities();
    let nms = names();
    let mut store: ResourceRecordManager<'static> = ResourceRecordManager::new();
    let mut model: Vec<Option<Kind>> = vec![None; ids.len()];
    let steps = r.usize(6, 14);
    let _ = virtual_clock;
    // how records "learned from the network" reach the store: 0 = add_cached_resource directly; 1/2 = through the real
    // ingest function of the sync service discovery (without / with on_discovery channel); 3 = the tokio ingest function.
    // In the ingest modes the watched service is `x` and the discoverer's own instance `own.x`: records owned by `x`
    // itself are not strict subdomains and are ignored by the ingest filter (the model then leaves them untouched).
    let mode = if cfg!(miri) { idx % 3 } else { idx % 4 };
    let service = simple_dns::Name::new("x").unwrap().into_owned();
    let own = simple_dns::Name::new("own.x").unwrap().into_owned();
    let (tx, _rx) = std::sync::mpsc::channel();
    let mut chan = if mode == 2 { Some(tx) } else { None };
    let (atx, _arx) = tokio::sync::mpsc::channel(256);
    let mut achan = Some(atx);
    let rt = if mode == 3 { tokio::runtime::Builder::new_current_thread().build().ok() } else { None };
    out.count(&format!("histories_mode_{}", ["direct-store", "sync-ingest", "sync-ingest-with-channel", "tokio-ingest-with-channel"][mode as usize]));
    for step in 0..steps {
        let op = r.below(20);
        match op {
            0..=3 => {
                let i = r.usize(0, ids.len() - 1);
                let rr = bridge::lib_record(&ids[i]).unwrap().into_owned();
                store.add_authoritative_resource(rr);
                model[i] = Some(Kind::Auth);
                out.log.push(format!("{}: add-authoritative #{}", step, i));
            }
            4..=10 => {
                let i = r.usize(0, ids.len() - 1);
                let ttl = *r.pick(&[0u32, 1, 1, 2, 2, 1000, 1000, 0x7FFF_FFFF, 0x8000_0000, u32::MAX]);
                let flush = r.chance(1, 4);
                let mut rec = ids[i].clone();
                rec.ttl = ttl;
                rec.flush = flush;
                let rr = bridge::lib_record(&rec).unwrap().into_owned();
                let ingested = mode == 0 || rec.name.len() > 1; // `x` itself is filtered out by the ingest functions
                let a0 = Instant::now();
                if mode == 0 {
                    store.add_cached_resource(rr);
                } else {
                    let mut p = simple_dns::Packet::new_reply(0);
                    if r.bool() { p.answers.push(rr) } else { p.additional_records.push(rr) }
                    match (&rt, mode) {
                        (Some(rt), 3) => rt.block_on(simple_mdns::verif_async::add_response_to_resources(p, &service, &own, &mut store, &mut achan)),
                        _ => simple_mdns::verif::add_response_to_resources(p, &service, &own, &mut store, &mut chan),
                    }
                }
                let a1 = Instant::now();
                let eff = if flush { 1 } else { ttl as u64 };
                if ingested {
                    match &model[i] {
                        Some(Kind::Auth) => {} // sticky
                        _ => model[i] = Some(Kind::Cached { a0, a1, ttl: eff }),
                    }
                }
                out.log.push(format!("{}: receive #{} ttl {} cache-flush {} (mode {})", step, i, ttl, flush, mode));
            }
            11 | 12 => {
                let i = r.usize(0, ids.len() - 1);
                let mut rec = ids[i].clone();
                rec.ttl = 77;
                let rr = bridge::lib_record(&rec).unwrap().into_owned();
                store.remove_resource_record(&rr);
                model[i] = None;
                out.log.push(format!("{}: remove #{}", step, i));
            }
            13 => {
                if r.chance(1, 3) {
                    store.clear();
                    for m in model.iter_mut() {
                        *m = None;
                    }
                    out.log.push(format!("{}: clear", step));
                }
            }
            _ => {
                // under Miri the clock is virtual (sleeps cost nothing): also cross the 1000-second TTL
                let d = if cfg!(miri) { *r.pick(&[0u64, 400, 1100, 2100, 999_500, 1_000_600]) } else { *r.pick(&[0u64, 400, 400, 1100, 1100, 2100]) };
                std::thread::sleep(Duration::from_millis(d));
                out.log.push(format!("{}: sleep {} ms", step, d));
            }
        }
        // queries
        for _ in 0..r.usize(1, 4) {
            let qn = r.pick(&nms).clone();
            let fk = r.below(4);
            let (filter, f_auth, f_cached, f_sub, fname) = match fk {
                0 => (DomainResourceFilter::authoritative(true), true, false, true, "authoritative+subdomains"),
                1 => (DomainResourceFilter::authoritative(false), true, false, false, "authoritative"),
                2 => (DomainResourceFilter::cached(), false, true, true, "cached"),
                _ => (DomainResourceFilter::all(), true, true, true, "all"),
            };
            let lname = bridge::lib_name(&qn);
            let q0 = Instant::now();
            let got: Result<Vec<Ident>, _> = monitor::guard(|| {
                store.get_domain_resources(&lname, filter).flatten().map(|rr| ident_of(&bridge::obs_record(rr))).collect()
            });
            let q1 = Instant::now();
            out.evals += 1;
            let case = json!({"family": "history", "idx": idx, "history": out.log, "query": format!("{} filter {}", name_text(&qn), fname)});
            let got = match got {
                Ok(g) => g,
                Err(p) => {
                    let loc = monitor::short_loc(&p.location);
                    out.violations.push(("never-panics".into(), format!("panic@{}", loc), format!("get_domain_resources panicked: {}", p.message), case));
                    continue;
                }
            };
            let mut decisions = String::new();
            let mut decided = 0;
            for (i, id) in ids.iter().enumerate() {
                let ident = ident_of(id);
                let present = got.iter().any(|g| *g == ident);
                let in_scope = under(&id.name, &qn, f_sub);
                // 'P' must be present, 'A' must be absent, '?' tolerance band
                let want = match (&model[i], in_scope) {
                    (_, false) | (None, _) => 'A',
                    (Some(Kind::Auth), true) => if f_auth { 'P' } else { 'A' },
                    (Some(Kind::Cached { a0, a1, ttl }), true) => {
                        if !f_cached { 'A' }
                        else if q1 < *a0 + Duration::from_secs(*ttl) { 'P' }
                        else if q0 >= *a1 + Duration::from_secs(*ttl) { 'A' }
                        else { '?' }
                    }
                };
                decisions.push(want);
                match want {
                    'P' => {
                        decided += 1;
                        out.count("decisions_must_be_present");
                        if !present {
                            let (clause, sig) = match &model[i] {
                                Some(Kind::Auth) => ("authoritative-never-expires", format!("authoritative-record-missing:{}", fname)),
                                _ => ("returned-while-ttl-runs", format!("cached-record-missing-before-expiry:{}", fname)),
                            };
                            out.violations.push((clause.into(), sig, format!("record #{} ({}) must be returned by filter {} on {} but is not", i, name_text(&id.name), fname, name_text(&qn)), case.clone()));
                        }
                    }
                    'A' => {
                        decided += 1;
                        out.count("decisions_must_be_absent");
                        if present {
                            let (clause, sig) = match (&model[i], in_scope) {
                                (_, false) => ("scope", format!("record-outside-queried-name:{}", fname)),
                                (None, _) => ("removed-stays-removed", format!("removed-record-returned:{}", fname)),
                                (Some(Kind::Auth), _) => ("authoritative-not-in-cache-queries", format!("authoritative-record-in-cache-query:{}", fname)),
                                (Some(Kind::Cached { .. }), _) => if f_cached { ("never-after-expiry", format!("expired-record-returned:{}", fname)) } else { ("cached-not-in-authoritative-queries", format!("cached-record-in-authoritative-query:{}", fname)) },
                            };
                            out.violations.push((clause.into(), sig, format!("record #{} ({}) must not be returned by filter {} on {} but is", i, name_text(&id.name), fname, name_text(&qn)), case.clone()));
                        }
                    }
                    _ => out.count("decisions_in_tolerance_band"),
                }
            }
            if got.iter().any(|g| !ids.iter().any(|id| ident_of(id) == *g)) {
                out.violations.push(("scope".into(), "unknown-record-returned".into(), "a record that was never added was returned".into(), case.clone()));
            }
            if decided > 0 && model.iter().any(|m| m.is_some()) {
                let st: String = model.iter().map(|m| match m { None => '-', Some(Kind::Auth) => 'a', Some(Kind::Cached { ttl, .. }) => char::from(b'0' + (*ttl).min(9) as u8) }).collect();
                out.hashes.push(fnv(format!("{}|{}|{}|{}", st, fname, name_text(&qn), decisions).as_bytes()));
            }
        }
    }
    out
}

pub fn run(ctx: &mut Ctx) {
    let n = if ctx.slow_tool { 320 } else { ctx.tier.pick(480u64, 6400u64) };
    let mine: Vec<u64> = (0..n).filter(|i| ctx.take("history", *i)).collect();
    let seed = ctx.seed;
    let slow = ctx.slow_tool;
    let mut locals: Vec<Local> = Vec::new();
    if slow || ctx.only.is_some() {
        for i in &mine {
            locals.push(history(seed, *i, slow));
        }
    } else {
        // sleeping costs no CPU: run this shard's histories in waves of parallel threads
        for wave in mine.chunks(40) {
            let hs: Vec<_> = wave.iter().map(|i| { let i = *i; std::thread::spawn(move || history(seed, i, false)) }).collect();
            for h in hs {
                match h.join() {
                    Ok(l) => locals.push(l),
                    Err(_) => ctx.inconclusive.push("a history thread died outside a guarded call".into()),
                }
            }
            if ctx.time_up() {
                ctx.notes.push("stopped early (time budget)".into());
                break;
            }
        }
    }
    for l in locals {
        ctx.count("histories");
        ctx.add("queries", l.evals);
        for (k, v) in l.counters {
            ctx.add(&k, v);
        }
        for h in l.hashes {
            ctx.case(true, h);
        }
        for (clause, sig, detail, case) in l.violations {
            ctx.violation(&clause, &sig, detail, case);
        }
        ctx.sample("history", || json!({"history": l.log}));
    }
}
