//! C20 – cached discovery records expire on time.

use super::c13::{ident_of, Ident};
use crate::bridge;
use crate::ctx::*;
use crate::model::*;
use crate::monitor;
use crate::refdns::*;
use crate::rng::{fnv, Rng};
use serde_json::{json, Value};
use simple_mdns::verif::{DomainResourceFilter, ResourceRecordManager};
use std::collections::BTreeMap;
use std::time::{Duration, Instant};

pub fn meta() -> Meta {
    Meta {
        rule: "histories of 6..14 steps over add-authoritative, receive-from-network(ttl in {0,1,2,1000,2^31-1,2^31,2^32-1}, cache-flush; either add_cached_resource directly or a response packet through the real sync / tokio ingest functions, with and without on_discovery channel), re-add, remove, clear and real sleeps of {0, 0.4, 1.1, 2.1} s \
on 12 record identities (under each name two of class IN that differ in RDATA only and one of class CS / CH / HS / NONE with the RDATA of the first) under collision-free names (x, a.x, b.x, c.a.x); after every step the store is queried with the authoritative (with/without subdomains), cached \
and combined filters. Every library call is bracketed by two Instant readings; the model keeps per identity Authoritative | Cached{added in [a0,a1], effective ttl}. \
Cached record: must be returned if the query ended before a0+ttl, must not be returned if it began at or after a1+ttl (in between either); authoritative: always by \
authoritative/all filters, never by the cached filter; removed/cleared/foreign-name records never. Authoritative is sticky against a later add-cached. Histories run in \
parallel threads, each with its own store; under Miri the same workload runs on the virtual clock. Live family: a real sync and a real tokio ServiceDiscovery (receive loop and 5-second \
refresh cycle running) each receive one response about four peers (SRV with TTL 2 next to TXT/A with TTL 4500; all 4500; all 2; all with the cache-flush bit) and get_known_services() is read \
0.45 s after it (all complete, else inconclusive) and 8 s after it (first peer without its port, second complete, third and fourth gone). non-trivial = query observation that was decided (not in the tolerance \
band) on a non-empty model; distinct = hash of (model state, filter, name, decision vector)",
        assumptions: &["Instant is monotonic; the tolerance band is the width of the bracketing interval (microseconds), TTLs are whole seconds"],
        exhaustive: false,
        min_distinct: 300,
    }
}

#[derive(Clone, Debug)]
enum Kind {
    Auth,
    Cached { a0: Instant, a1: Instant, ttl: u64 },
}

#[derive(Default)]
struct Local {
    counters: BTreeMap<String, u64>,
    hashes: Vec<u64>,
    evals: u64,
    violations: Vec<(String, String, String, Value)>,
    log: Vec<String>,
}
impl Local {
    fn count(&mut self, k: &str) {
        *self.counters.entry(k.to_string()).or_insert(0) += 1;
    }
}

fn names() -> Vec<NameM> {
    let l = |s: &str| s.as_bytes().to_vec();
    vec![vec![l("x")], vec![l("a"), l("x")], vec![l("b"), l("x")], vec![l("c"), l("a"), l("x")]]
}

fn identities() -> Vec<RecSem> {
    let mut v = Vec::new();
    // the second identity under each name is of another class: lifetimes do not depend on the class
    // and two identities under each name differ in their RDATA only (same name, type and class): each has its own lifetime
    for (i, n) in names().into_iter().enumerate() {
        for k in 1..=3u64 {
            let class = if k <= 2 { 1 } else { [3u16, 4, 254, 2][i % 4] };
            // (the identity of another class carries the same RDATA as the first one: the class alone tells them apart)
            v.push(RecSem { name: n.clone(), rtype: 1, class, flush: false, ttl: 0, rd: Rd::Fields(vec![F::Int(if k == 3 { 1 } else { k })]) });
        }
    }
    v
}

fn under(a: &NameM, b: &NameM, sub: bool) -> bool {
    a == b || (sub && a.len() > b.len() && a[a.len() - b.len()..] == b[..])
}

fn history(seed: u64, idx: u64, virtual_clock: bool) -> Local {
    let mut out = Local::default();
    let mut r = Rng::for_case(seed, "c20-history", idx);
    let ids = identities();
    let nms = names();
    let mut store: ResourceRecordManager<'static> = ResourceRecordManager::new();
    let mut model: Vec<Option<Kind>> = vec![None; ids.len()];
    let steps = r.usize(6, 14);
    let _ = virtual_clock;
    // how records "learned from the network" reach the store: 0 = add_cached_resource directly; 1/2 = through the real
    // ingest function of the sync service discovery (without / with on_discovery channel); 3 = the tokio ingest function.
    // In the ingest modes the watched service is `x` and the discoverer's own instance `own.x`: records owned by `x`
    // itself are not strict subdomains and are ignored by the ingest filter (the model then leaves them untouched).
    let mode = if cfg!(miri) { idx % 3 } else { idx % 4 };
    let service = simple_dns::Name::new("x").unwrap().into_owned();
    let own = simple_dns::Name::new("own.x").unwrap().into_owned();
    let (tx, rx) = std::sync::mpsc::channel();
    let mut chan = if mode == 2 { Some(tx) } else { None };
    let (atx, arx) = tokio::sync::mpsc::channel(256);
    let mut achan = Some(atx);
    // in half of the histories with a channel the application drops its receiving end at some step: what is received after that
    // (and in particular the first packet after it) must reach the store all the same
    let (mut rx, mut arx) = (Some(rx), Some(arx));
    let hang_up_at = if idx % 8 >= 4 { Some(Rng::for_case(seed, "c20-hang-up", idx).usize(0, steps)) } else { None };
    let rt = if mode == 3 { tokio::runtime::Builder::new_current_thread().build().ok() } else { None };
    out.count(&format!("histories_mode_{}", ["direct-store", "sync-ingest", "sync-ingest-with-channel", "tokio-ingest-with-channel"][mode as usize]));
    for step in 0..steps {
        if hang_up_at == Some(step) {
            rx = None;
            arx = None;
            if mode >= 2 {
                out.count("histories_whose_on_discovery_receiver_was_dropped_midway");
                out.log.push(format!("{}: the application drops the receiving end of its on_discovery channel", step));
            }
        }
        let op = r.below(20);
        match op {
            0..=3 => {
                let i = r.usize(0, ids.len() - 1);
                let rr = bridge::lib_record(&ids[i]).unwrap().into_owned();
                store.add_authoritative_resource(rr);
                model[i] = Some(Kind::Auth);
                out.log.push(format!("{}: add-authoritative #{}", step, i));
            }
            4..=10 => {
                let i = r.usize(0, ids.len() - 1);
                let ttl = *r.pick(&[0u32, 1, 1, 2, 2, 1000, 1000, 0x7FFF_FFFF, 0x8000_0000, u32::MAX]);
                let flush = r.chance(1, 4);
                let mut rec = ids[i].clone();
                rec.ttl = ttl;
                rec.flush = flush;
                let rr = bridge::lib_record(&rec).unwrap().into_owned();
                let ingested = mode == 0 || rec.name.len() > 1; // `x` itself is filtered out by the ingest functions
                let a0 = Instant::now();
                if mode == 0 {
                    store.add_cached_resource(rr);
                } else {
                    let mut p = simple_dns::Packet::new_reply(0);
                    if r.bool() { p.answers.push(rr) } else { p.additional_records.push(rr) }
                    match (&rt, mode) {
                        (Some(rt), 3) => rt.block_on(simple_mdns::verif_async::add_response_to_resources(p, &service, &own, &mut store, &mut achan)),
                        _ => simple_mdns::verif::add_response_to_resources(p, &service, &own, &mut store, &mut chan),
                    }
                }
                let a1 = Instant::now();
                let eff = if flush { 1 } else { ttl as u64 };
                if ingested {
                    match &model[i] {
                        Some(Kind::Auth) => {} // sticky
                        _ => model[i] = Some(Kind::Cached { a0, a1, ttl: eff }),
                    }
                }
                out.log.push(format!("{}: receive #{} ttl {} cache-flush {} (mode {})", step, i, ttl, flush, mode));
            }
            11 | 12 => {
                let i = r.usize(0, ids.len() - 1);
                let mut rec = ids[i].clone();
                rec.ttl = 77;
                let rr = bridge::lib_record(&rec).unwrap().into_owned();
                store.remove_resource_record(&rr);
                model[i] = None;
                out.log.push(format!("{}: remove #{}", step, i));
            }
            13 => {
                if r.chance(1, 3) {
                    store.clear();
                    for m in model.iter_mut() {
                        *m = None;
                    }
                    out.log.push(format!("{}: clear", step));
                }
            }
            _ => {
                // under Miri the clock is virtual (sleeps cost nothing): also cross the 1000-second TTL
                let d = if cfg!(miri) { *r.pick(&[0u64, 400, 1100, 2100, 999_500, 1_000_600]) } else { *r.pick(&[0u64, 400, 400, 1100, 1100, 2100]) };
                std::thread::sleep(Duration::from_millis(d));
                out.log.push(format!("{}: sleep {} ms", step, d));
            }
        }
        // queries
        for _ in 0..r.usize(1, 4) {
            let qn = r.pick(&nms).clone();
            let fk = r.below(4);
            let (filter, f_auth, f_cached, f_sub, fname) = match fk {
                0 => (DomainResourceFilter::authoritative(true), true, false, true, "authoritative+subdomains"),
                1 => (DomainResourceFilter::authoritative(false), true, false, false, "authoritative"),
                2 => (DomainResourceFilter::cached(), false, true, true, "cached"),
                _ => (DomainResourceFilter::all(), true, true, true, "all"),
            };
            let lname = bridge::lib_name(&qn);
            let q0 = Instant::now();
            let got: Result<Vec<Ident>, _> = monitor::guard(|| {
                store.get_domain_resources(&lname, filter).flatten().map(|rr| ident_of(&bridge::obs_record(rr))).collect()
            });
            let q1 = Instant::now();
            out.evals += 1;
            let case = json!({"family": "history", "idx": idx, "history": out.log, "query": format!("{} filter {}", name_text(&qn), fname)});
            let got = match got {
                Ok(g) => g,
                Err(p) => {
                    let loc = monitor::short_loc(&p.location);
                    out.violations.push(("never-panics".into(), format!("panic@{}", loc), format!("get_domain_resources panicked: {}", p.message), case));
                    continue;
                }
            };
            let mut decisions = String::new();
            let mut decided = 0;
            for (i, id) in ids.iter().enumerate() {
                let ident = ident_of(id);
                let present = got.iter().any(|g| *g == ident);
                let in_scope = under(&id.name, &qn, f_sub);
                // 'P' must be present, 'A' must be absent, '?' tolerance band
                let want = match (&model[i], in_scope) {
                    (_, false) | (None, _) => 'A',
                    (Some(Kind::Auth), true) => if f_auth { 'P' } else { 'A' },
                    (Some(Kind::Cached { a0, a1, ttl }), true) => {
                        if !f_cached { 'A' }
                        else if q1 < *a0 + Duration::from_secs(*ttl) { 'P' }
                        else if q0 >= *a1 + Duration::from_secs(*ttl) { 'A' }
                        else { '?' }
                    }
                };
                decisions.push(want);
                match want {
                    'P' => {
                        decided += 1;
                        out.count("decisions_must_be_present");
                        if !present {
                            let (clause, sig) = match &model[i] {
                                Some(Kind::Auth) => ("authoritative-never-expires", format!("authoritative-record-missing:{}", fname)),
                                _ => ("returned-while-ttl-runs", format!("cached-record-missing-before-expiry:{}", fname)),
                            };
                            out.violations.push((clause.into(), sig, format!("record #{} ({}) must be returned by filter {} on {} but is not", i, name_text(&id.name), fname, name_text(&qn)), case.clone()));
                        }
                    }
                    'A' => {
                        decided += 1;
                        out.count("decisions_must_be_absent");
                        if present {
                            let (clause, sig) = match (&model[i], in_scope) {
                                (_, false) => ("scope", format!("record-outside-queried-name:{}", fname)),
                                (None, _) => ("removed-stays-removed", format!("removed-record-returned:{}", fname)),
                                (Some(Kind::Auth), _) => ("authoritative-not-in-cache-queries", format!("authoritative-record-in-cache-query:{}", fname)),
                                (Some(Kind::Cached { .. }), _) => if f_cached { ("never-after-expiry", format!("expired-record-returned:{}", fname)) } else { ("cached-not-in-authoritative-queries", format!("cached-record-in-authoritative-query:{}", fname)) },
                            };
                            out.violations.push((clause.into(), sig, format!("record #{} ({}) must not be returned by filter {} on {} but is", i, name_text(&id.name), fname, name_text(&qn)), case.clone()));
                        }
                    }
                    _ => out.count("decisions_in_tolerance_band"),
                }
            }
            if got.iter().any(|g| !ids.iter().any(|id| ident_of(id) == *g)) {
                out.violations.push(("scope".into(), "unknown-record-returned".into(), "a record that was never added was returned".into(), case.clone()));
            }
            if decided > 0 && model.iter().any(|m| m.is_some()) {
                let st: String = model.iter().map(|m| match m { None => '-', Some(Kind::Auth) => 'a', Some(Kind::Cached { ttl, .. }) => char::from(b'0' + (*ttl).min(9) as u8) }).collect();
                out.hashes.push(fnv(format!("{}|{}|{}|{}", st, fname, name_text(&qn), decisions).as_bytes()));
            }
        }
    }
    out
}

/// Expiry as the application sees it through real services: a sync and a tokio ServiceDiscovery (receive loop and the
/// five-second refresh cycle running) each get one response packet about four peers whose records have different
/// lifetimes, and `get_known_services()` is read half a second and eight seconds after it.
fn live(ctx: &mut Ctx) -> Vec<std::thread::JoinHandle<Local>> {
    use simple_dns::rdata::{RData, A, SRV, TXT};
    use simple_dns::{Name, Packet, ResourceRecord, CLASS};
    use simple_mdns::{async_discovery, sync_discovery, InstanceInformation};
    let mut handles = Vec::new();
    for tokio_side in [false, true] {
        let pid = std::process::id();
        let seed = ctx.seed;
        handles.push(std::thread::spawn(move || {
            let mut out = Local { log: vec![], violations: vec![], evals: 0, hashes: vec![], counters: BTreeMap::new() };
            let who = if tokio_side { "tokio ServiceDiscovery" } else { "sync ServiceDiscovery" };
            let service_s = format!("_x{}{}._tcp.local", pid, if tokio_side { "t" } else { "s" });
            let rt = tokio::runtime::Builder::new_multi_thread().worker_threads(2).enable_all().build().unwrap();
            let started = monitor::guard(|| {
                let info = InstanceInformation::new("self".into()).with_port(9);
                if tokio_side {
                    let _g = rt.enter();
                    (None, async_discovery::ServiceDiscovery::new(info, &service_s, 60).ok())
                } else {
                    (sync_discovery::ServiceDiscovery::new(info, &service_s, 60).ok(), None)
                }
            });
            let (sd, ad) = match started {
                Ok((s, a)) if s.is_some() || a.is_some() => (s, a),
                _ => {
                    *out.counters.entry("live_skipped".into()).or_insert(0) += 1;
                    out.log.push(format!("INCONCLUSIVE live expiry: the {} could not start", who));
                    return out;
                }
            };
            let known = |sd: &Option<sync_discovery::ServiceDiscovery>, ad: &Option<async_discovery::ServiceDiscovery>| -> Vec<InstanceInformation> {
                match (sd, ad) {
                    (Some(s), _) => s.get_known_services().into_iter().collect(),
                    (_, Some(a)) => rt.block_on(a.get_known_services()).into_iter().collect(),
                    _ => vec![],
                }
            };
            // the packet: peer -> (ttl of SRV, ttl of TXT and A, cache-flush)
            let peers: [(&str, u32, u32, bool); 4] = [("x", 2, 4500, false), ("y", 4500, 4500, false), ("z", 2, 2, false), ("w", 4500, 4500, true)];
            let mut p = Packet::new_reply(0);
            for (k, (name, ttl_srv, ttl_rest, flush)) in peers.iter().enumerate() {
                let full = Name::new(&format!("{}.{}", name, service_s)).unwrap().into_owned();
                let recs = vec![
                    ResourceRecord::new(full.clone(), CLASS::IN, *ttl_srv, RData::SRV(SRV { port: 8000 + k as u16, priority: 0, weight: 0, target: full.clone() })),
                    ResourceRecord::new(full.clone(), CLASS::IN, *ttl_rest, RData::TXT(TXT::new().with_string("k=v").unwrap().into_owned())),
                    ResourceRecord::new(full.clone(), CLASS::IN, *ttl_rest, RData::A(A { address: 0x0A00_0001 + k as u32 })),
                ];
                for rr in recs {
                    p.answers.push(rr.with_cache_flush(*flush));
                }
            }
            let bytes = p.build_bytes_vec_compressed().unwrap();
            let Ok(sock) = std::net::UdpSocket::bind("0.0.0.0:0") else { return out };
            let _ = sock.set_multicast_loop_v4(true);
            std::thread::sleep(Duration::from_millis(300));
            let t_send = Instant::now();
            let _ = sock.send_to(&bytes, "224.0.0.251:5353");
            let case = json!({"family": "live", "idx": tokio_side as u64, "service": service_s, "packet": hex(&bytes), "seed": seed});
            // half a second later everything must be there (a lost datagram is not the library's fault)
            std::thread::sleep(Duration::from_millis(450));
            let k1 = match monitor::guard(|| known(&sd, &ad)) {
                Ok(k) => k,
                Err(pn) => {
                    out.violations.push(("returned-while-ttl-runs".into(), format!("panic@{}", monitor::short_loc(&pn.location)), format!("get_known_services panicked: {}", pn.message), case.clone()));
                    return out;
                }
            };
            let find = |k: &Vec<InstanceInformation>, n: &str| k.iter().find(|i| i.escaped_instance_name() == n).cloned();
            if ["x", "y", "z", "w"].iter().any(|n| find(&k1, n).is_none()) {
                *out.counters.entry("live_skipped".into()).or_insert(0) += 1;
                out.log.push(format!("INCONCLUSIVE live expiry: half a second after the response was sent the {} knows only {:?} (datagram lost?)", who, k1.iter().map(|i| i.escaped_instance_name()).collect::<Vec<_>>()));
                return out;
            }
            for n in ["x", "y", "z", "w"] {
                let i = find(&k1, n).unwrap();
                out.evals += 1;
                if i.ports.len() != 1 || i.ip_addresses.len() != 1 || i.attributes.len() != 1 {
                    out.violations.push(("returned-while-ttl-runs".into(), format!("live-record-missing-before-expiry:{}", if tokio_side { "tokio" } else { "sync" }),
                        format!("{}: {:?} half a second after reception lacks records whose TTL (>= 1 s) has not elapsed: {:?}", who, n, i), case.clone()));
                }
            }
            // eight seconds after reception: at least one refresh cycle has run, the 2-second and the cache-flush lifetimes are over
            let left = Duration::from_millis(8000).saturating_sub(t_send.elapsed());
            std::thread::sleep(left);
            let k2 = match monitor::guard(|| known(&sd, &ad)) {
                Ok(k) => k,
                Err(pn) => {
                    out.violations.push(("returned-while-ttl-runs".into(), format!("panic@{}", monitor::short_loc(&pn.location)), format!("get_known_services panicked: {}", pn.message), case.clone()));
                    return out;
                }
            };
            let side = if tokio_side { "tokio" } else { "sync" };
            out.evals += 4;
            *out.counters.entry("live_expiry_observations".into()).or_insert(0) += 8;
            match find(&k2, "y") {
                Some(i) if i.ports.len() == 1 && i.ip_addresses.len() == 1 && i.attributes.len() == 1 => {}
                other => out.violations.push(("returned-while-ttl-runs".into(), format!("live-record-missing-before-expiry:{}", side),
                    format!("{}: peer y (all TTLs 4500 s) is incomplete eight seconds after reception: {:?}", who, other), case.clone())),
            }
            match find(&k2, "x") {
                Some(i) if i.ports.is_empty() && i.ip_addresses.len() == 1 && i.attributes.len() == 1 => {}
                Some(i) if !i.ports.is_empty() => out.violations.push(("never-after-expiry".into(), format!("live-expired-record-returned:{}", side),
                    format!("{}: peer x still shows the port of its SRV record (TTL 2 s) eight seconds after reception: {:?}", who, i), case.clone())),
                other => out.violations.push(("returned-while-ttl-runs".into(), format!("live-record-missing-before-expiry:{}", side),
                    format!("{}: peer x lost records whose TTL is 4500 s when its 2-second SRV record expired: {:?}", who, other), case.clone())),
            }
            for (n, why) in [("z", "all TTLs 2 s"), ("w", "received with the cache-flush bit")] {
                if let Some(i) = find(&k2, n) {
                    out.violations.push(("never-after-expiry".into(), format!("live-expired-record-returned:{}", side),
                        format!("{}: peer {} ({}) is still reported eight seconds after reception: {:?}", who, n, why, i), case.clone()));
                }
            }
            out.hashes.push(fnv(service_s.as_bytes()));
            out.log.push(format!("live expiry through the {}: x, y, z, w present at 0.45 s; x without port, y complete, z and w gone at 8 s", who));
            rt.shutdown_timeout(Duration::from_millis(200));
            out
        }));
    }
    handles
}

pub fn run(ctx: &mut Ctx) {
    let live_handles = if ctx.shard == 0 && !ctx.slow_tool && !cfg!(miri) && ctx.family_active("live") && std::env::var_os("VERIF_C20_NO_LIVE").is_none() { live(ctx) } else { Vec::new() };
    run_histories(ctx);
    for h in live_handles {
        match h.join() {
            Ok(l) => {
                ctx.add("queries", l.evals);
                for (k, v) in l.counters {
                    ctx.add(&k, v);
                }
                for hsh in l.hashes {
                    ctx.case(true, hsh);
                }
                for line in &l.log {
                    if let Some(rest) = line.strip_prefix("INCONCLUSIVE ") {
                        ctx.inconclusive.push(rest.to_string());
                    }
                }
                for (clause, sig, detail, case) in l.violations {
                    ctx.violation(&clause, &sig, detail, case);
                }
                ctx.sample("live", || json!({"log": l.log}));
            }
            Err(_) => ctx.inconclusive.push("the live expiry thread died outside a guarded call".into()),
        }
    }
    if ctx.shard == 0 && !ctx.slow_tool && !cfg!(miri) {
        super::common::report_lock_discipline(ctx, "returned-while-ttl-runs", "live");
    }
    for fp in monitor::take_foreign_panics() {
        let loc = monitor::short_loc(&fp.location);
        ctx.violation("returned-while-ttl-runs", &format!("service-thread-panic@{}", loc), format!("a service thread panicked during the live expiry family: {}", fp.message), json!({"family": "live", "idx": 0}));
    }
}

fn run_histories(ctx: &mut Ctx) {
    let n = if ctx.slow_tool { 320 } else { ctx.tier.pick(480u64, 6400u64) };
    let mine: Vec<u64> = (0..n).filter(|i| ctx.take("history", *i)).collect();
    let seed = ctx.seed;
    let slow = ctx.slow_tool;
    let mut locals: Vec<Local> = Vec::new();
    if slow || ctx.only.is_some() {
        for i in &mine {
            locals.push(history(seed, *i, slow));
        }
    } else {
        // sleeping costs no CPU: run this shard's histories in waves of parallel threads
        for wave in mine.chunks(40) {
            let hs: Vec<_> = wave.iter().map(|i| { let i = *i; std::thread::spawn(move || history(seed, i, false)) }).collect();
            for h in hs {
                match h.join() {
                    Ok(l) => locals.push(l),
                    Err(_) => ctx.inconclusive.push("a history thread died outside a guarded call".into()),
                }
            }
            if ctx.time_up() {
                ctx.notes.push("stopped early (time budget)".into());
                break;
            }
        }
    }
    for l in locals {
        ctx.count("histories");
        ctx.add("queries", l.evals);
        for (k, v) in l.counters {
            ctx.add(&k, v);
        }
        for h in l.hashes {
            ctx.case(true, h);
        }
        for (clause, sig, detail, case) in l.violations {
            ctx.violation(&clause, &sig, detail, case);
        }
        ctx.sample("history", || json!({"history": l.log}));
    }
}
