//! C05 – parsing honours the record framing of the message.

use super::c01::{corpus_msg, havoc, sample_file_messages};
use crate::bridge;
use crate::ctx::*;
use crate::gen::{Cfg, Gen};
use crate::model::*;
use crate::monitor;
use crate::refdns::*;
use crate::rng::Rng;
use serde_json::json;
use simple_dns::Packet;

pub fn meta() -> Meta {
    Meta {
        rule: "every input is walked by the independent RFC 1035 envelope walker W (names, fixed RR header, RDLENGTH skip). W fails \
(count/length past the end, undecodable name) => Packet::parse must be Err. W succeeds and parse is Ok => questions and records must \
correspond one-to-one and in order to W's entries minus the lifted OPT (owner, type, class, cache-flush, TTL), and when the RDLENGTH-delimited \
slice decodes exactly under the type's reference schema the library's fields must equal that decode. Inputs: reference messages with one \
record's RDLENGTH stretched by filler that looks like a complete record (or shrunk), for all 40 types; an OPT record at every position of additional sections of 1..7 \
distinguishable records; header counts overstated over minimal entries; owner names that are pointers to a byte whose label covers the pointer itself and the record's fixed part (also with a decoy record header inside the following label); all cut/perturb cases of the C01 corpus; havoc. non-trivial = input >= 12 bytes announcing >= 1 entry on which W and the library were both run; distinct = hash of bytes",
        assumptions: &[
            "W accepts in-bounds forward pointers, the library may reject them (no demand)",
            "with two or more TYPE-41 records in the additional section only the alignment of non-OPT entries is compared",
        ],
        exhaustive: false,
        min_distinct: 1000,
    }
}

fn name_invalid(e: &EnvErr) -> bool {
    matches!(e, EnvErr::Name(..) | EnvErr::Truncated(..))
}

pub fn check_bytes(ctx: &mut Ctx, family: &str, idx: u64, b: &[u8]) {
    let nontrivial = b.len() >= 12 && b[4..12].iter().any(|x| *x != 0);
    ctx.case_bytes(nontrivial, b);
    let w = decode_envelope(b);
    let parsed = monitor::guard(|| Packet::parse(b).map(|p| bridge::observe(&p)).map_err(|e| format!("{:?}", e)));
    let parsed = match parsed {
        Ok(p) => p,
        Err(pn) => {
            // a panic is C01's subject, but it is also neither "rejected" nor "returns the entries the wire delimits"
            let loc = monitor::short_loc(&pn.location);
            ctx.violation(if w.is_err() { "rejects-overrun" } else { "entries-as-delimited" }, &format!("panic-instead-of-{}@{}", if w.is_err() { "rejection" } else { "entries" }, loc),
                format!("Packet::parse panicked at {} ({}) on a {}-byte message that the envelope walker {}", loc, pn.message, b.len(), if w.is_err() { "rejects" } else { "accepts" }),
                case_bytes_json(family, idx, b));
            return;
        }
    };
    let case = || case_bytes_json(family, idx, b);
    match (&w, &parsed) {
        (Err(e), Ok(_)) => {
            if matches!(e, EnvErr::ShortHeader) || name_invalid(e) {
                ctx.violation(
                    "rejects-overrun",
                    &format!("accepted-but-walker-fails:{}", match e { EnvErr::Name(ne, ..) => format!("name-{:?}", ne), EnvErr::Truncated(..) => "truncated".into(), _ => "short".into() }),
                    format!("Packet::parse accepted a message on which the envelope walker fails with {:?}", e),
                    case(),
                );
            }
        }
        (Err(_), Err(_)) => ctx.count("both_reject"),
        (Ok(_), Err(_)) => ctx.count("walker_ok_library_rejects_(allowed)"),
        (Ok(env), Ok(obs)) => {
            ctx.count("both_accept");
            compare(ctx, family, idx, b, env, obs);
        }
    }
}

fn compare(ctx: &mut Ctx, family: &str, idx: u64, b: &[u8], env: &Env, obs: &PktM) {
    let case = || case_bytes_json(family, idx, b);
    // questions
    if env.qs.len() != obs.qs.len() {
        ctx.violation("one-to-one", "question-count", format!("walker found {} questions, library {}", env.qs.len(), obs.qs.len()), case());
        return;
    }
    for (i, (wq, lq)) in env.qs.iter().zip(obs.qs.iter()).enumerate() {
        if wq.name.forward {
            continue;
        }
        if wq.name.labels != lq.name || wq.qtype != lq.qtype || (wq.qclass & 0x7FFF) != lq.qclass || (wq.qclass & 0x8000 != 0) != lq.unicast {
            ctx.violation("one-to-one", "question-mismatch",
                format!("question {}: walker ({}, {}, {:#x}) vs library ({}, {}, {}, unicast {})", i, name_text(&wq.name.labels), wq.qtype, wq.qclass,
                    name_text(&lq.name), lq.qtype, lq.qclass, lq.unicast), case());
            return;
        }
    }
    // records
    let n41: Vec<usize> = env.secs[2].iter().enumerate().filter(|(_, r)| r.rtype == 41).map(|(i, _)| i).collect();
    for s in 0..3 {
        let mut wl: Vec<&RRW> = env.secs[s].iter().collect();
        let mut ll: Vec<&RecSem> = obs.secs[s].iter().collect();
        if s == 2 {
            if n41.len() == 1 {
                wl.remove(n41[0]);
                if obs.edns.is_none() {
                    ctx.violation("opt-lifted", "opt-not-lifted", "a single TYPE-41 record in the additional section was not exposed as EDNS data".into(), case());
                }
            } else if n41.len() >= 2 {
                ctx.count("multiple_opt_records_(latitude)");
                wl.retain(|r| r.rtype != 41);
                ll.retain(|r| r.rtype != 41);
            }
        }
        if wl.len() != ll.len() {
            ctx.violation("one-to-one", &format!("record-count:section{}", s),
                format!("section {}: walker found {} records, library {}", s, wl.len(), ll.len()), case());
            return;
        }
        for (i, (wr, lr)) in wl.iter().zip(ll.iter()).enumerate() {
            ctx.count("records_compared");
            if wr.name.forward {
                continue;
            }
            let is_opt = wr.rtype == 41;
            let hdr_ok = wr.name.labels == lr.name
                && wr.rtype == lr.rtype
                && (is_opt || ((wr.class & 0x7FFF) == lr.class && (wr.class & 0x8000 != 0) == lr.flush))
                && wr.ttl == lr.ttl;
            if !hdr_ok {
                ctx.violation("one-to-one", &format!("record-header-mismatch:{}", type_name(wr.rtype)),
                    format!("section {} record {}: walker ({}, type {}, class {:#x}, ttl {}) vs library ({}, type {}, class {}, flush {}, ttl {})",
                        s, i, name_text(&wr.name.labels), wr.rtype, wr.class, wr.ttl, name_text(&lr.name), lr.rtype, lr.class, lr.flush, lr.ttl), case());
                return;
            }
            // RDATA from exactly RDLENGTH bytes
            if wr.rdlen == 0 {
                // an OPT record without options is legitimately shown as an OPT with an empty option list
                let empty_typed = matches!(&lr.rd, Rd::Fields(_)) && schema(lr.rtype).is_some() && encode_rdata_plain(lr.rtype, &lr.rd).is_empty();
                if lr.rd != Rd::Opaque(vec![]) && !empty_typed {
                    ctx.violation("rdata-from-rdlength", &format!("empty-rdata-not-empty:{}", type_name(wr.rtype)),
                        format!("RDLENGTH 0 but the library shows {}", short_rd(&lr.rd)), case());
                    return;
                }
            } else if schema(wr.rtype).is_none() {
                if lr.rd != Rd::Opaque(b[wr.rd_off..wr.end].to_vec()) {
                    ctx.violation("rdata-from-rdlength", "opaque-rdata-differs",
                        format!("unknown type {}: library data differs from the {} RDATA bytes", wr.rtype, wr.rdlen), case());
                    return;
                }
            } else {
                match decode_rdata(b, wr.rd_off, wr.rdlen, wr.rtype) {
                    Ok((fields, names)) => {
                        if names.iter().any(|n| n.name.forward) {
                            continue;
                        }
                        ctx.count("rdata_compared_exact");
                        if lr.rd != Rd::Fields(fields.clone()) {
                            ctx.violation("rdata-from-rdlength", &format!("rdata-differs:{}", type_name(wr.rtype)),
                                format!("section {} record {}: reference decode {} vs library {}", s, i, short_rd(&Rd::Fields(fields)), short_rd(&lr.rd)), case());
                            return;
                        }
                    }
                    Err(_) => {
                        // RDLENGTH differs from the natural size of the typed content: the library may reject the message or ignore a
                        // surplus. What it may not do is hand back more content than the RDLENGTH window holds (for the types without
                        // names inside RDATA the value's own encoding says how many bytes it was read from)
                        let nameless = schema(wr.rtype).map(|sc| !sc.iter().any(|k| matches!(k, K::Name(_)))).unwrap_or(false);
                        let natural = if nameless && matches!(&lr.rd, Rd::Fields(_)) { encode_rdata_plain(lr.rtype, &lr.rd).len() } else { 0 };
                        if natural > wr.rdlen {
                            ctx.violation("rdata-from-rdlength", &format!("rdata-read-beyond-rdlength:{}", type_name(wr.rtype)),
                                format!("section {} record {}: RDLENGTH is {} but the value returned ({}) takes {} bytes: it was read from beyond the record", s, i, wr.rdlen, short_rd(&lr.rd), natural), case());
                            return;
                        }
                        // ... nor present the record as opaque data that is not the RDLENGTH bytes of the entry
                        if let Rd::Opaque(data) = &lr.rd {
                            if data[..] != b[wr.rd_off..wr.end] {
                                ctx.violation("rdata-from-rdlength", &format!("opaque-rdata-is-not-the-rdlength-bytes:{}", type_name(wr.rtype)),
                                    format!("section {} record {}: the typed content does not fit RDLENGTH {}, the library returns the record as opaque data of {} bytes that differ from the {} RDATA bytes of the entry",
                                        s, i, wr.rdlen, data.len(), wr.rdlen), case());
                                return;
                            }
                            ctx.count("undecodable_rdata_kept_opaque_exact");
                        }
                        ctx.count("rdata_not_exact_(latitude)")
                    }
                }
            }
        }
    }
}

/// A response whose additional section has `n` records; those at the positions of `mask` are OPT pseudo-records.
pub fn multi_opt_msg(ctx: &Ctx, idx: u64, n: usize, mask: u32, rep: u64) -> Vec<u8> {
    let mut r = ctx.rng("opt-multi", idx);
    let mut g = Gen::new(&mut r, Cfg { edns: 0, max_rest: 10, exotic: false, ..Default::default() });
    let mut m = MsgM { id: idx as u16, flags: if rep % 2 == 0 { 0x8400 } else { 0x0100 }, ..Default::default() };
    if rep % 3 == 1 {
        m.secs[0].push(g.record().to_wire());
    }
    for k in 0..n {
        if mask & (1 << k) != 0 {
            let opts = if (rep + k as u64) % 3 == 0 { vec![] } else { vec![(10u16, vec![1, 2, 3, 4, 5, 6, 7, 8]), (3, vec![k as u8])] };
            m.secs[2].push(RRM::new(vec![], 41, 512 + k as u16, (k as u32) << 24, Rd::Fields(vec![F::Pairs(opts)])));
        } else {
            let mut rr = g.record().to_wire();
            rr.ttl = 1000 + k as u32;
            m.secs[2].push(rr);
        }
    }
    encode(&m, if rep % 4 < 2 { Plan::None } else { Plan::Canonical }).bytes
}

/// filler that looks like a complete A record with a root owner
fn filler(r: &mut Rng, n: usize) -> Vec<u8> {
    let rec: [u8; 15] = [0, 0, 1, 0, 1, 0, 0, 0, 9, 0, 4, 10, 11, 12, 13];
    let mut v = Vec::new();
    while v.len() < n {
        v.extend_from_slice(&rec);
    }
    v.truncate(n);
    if r.chance(1, 4) {
        for x in v.iter_mut() {
            if r.chance(1, 8) {
                *x = r.u8()
            }
        }
    }
    v
}

pub fn stretched(seed: u64, idx: u64) -> Vec<u8> {
    let mut r = Rng::for_case(seed, "c05-stretch", idx);
    let code = TYPED_CODES[(idx % 40) as usize];
    let mut g = Gen::new(&mut r, Cfg { edns: 0, max_rest: 10, exotic: false, ..Default::default() });
    let mut m = MsgM { id: idx as u16, flags: 0x8400, ..Default::default() };
    if g.r.bool() {
        let q = g.question();
        m.qs.push(QM { name: q.name, qtype: q.qtype, qclass: q.qclass });
    }
    let total = g.r.usize(2, 6);
    let victim = g.r.usize(0, total - 2); // never the last: something must follow
    let mut k = 0;
    for s in 0..3 {
        let here = if s == 2 { total - k } else { g.r.usize(0, total - k) };
        for _ in 0..here {
            let mut rr = if k == victim && code != 41 { g.record_of(code).to_wire() } else if k == victim {
                RRM::new(vec![], 41, 1232, 0, Rd::Fields(vec![F::Pairs(vec![(10, vec![1, 2, 3, 4, 5, 6, 7, 8])])]))
            } else { g.record().to_wire() };
            if k == victim {
                match g.r.below(5) {
                    0 => rr.rdlen_delta = -(g.r.usize(1, 4) as i32),
                    1 => rr.rdlen_delta = g.r.usize(1, 15) as i32,
                    _ => { let n = g.r.usize(1, 40); rr.extra = filler(g.r, n) }
                }
            }
            m.secs[s].push(rr);
            k += 1;
        }
    }
    let plan = if g.r.bool() { Plan::Canonical } else { Plan::None };
    encode(&m, plan).bytes
}

pub fn run(ctx: &mut Ctx) {
    if let Some(c) = ctx.replay_case.clone() {
        if let Some(b) = c["bytes"].as_str().and_then(unhex) {
            check_bytes(ctx, c["family"].as_str().unwrap_or("replay"), c["idx"].as_u64().unwrap_or(0), &b);
            return;
        }
    }
    let tier = ctx.tier;
    let seed = ctx.seed;
    let n = if ctx.slow_tool { 40 } else { tier.pick(400_000u64, 20_000_000u64) };
    for idx in 0..n {
        if !ctx.take("stretch", idx) {
            continue;
        }
        if ctx.stop("stretch") {
            break;
        }
        let b = stretched(seed, idx);
        ctx.sample("stretch", || json!({"bytes": hex(&b)}));
        ctx.add(&format!("stretch_cases_{}", type_name(TYPED_CODES[(idx % 40) as usize])), 1);
        check_bytes(ctx, "stretch", idx, &b);
    }
    // an OPT record at every position of an additional section of 1..7 distinguishable records: lifting it out must not
    // disturb the order of the others
    if ctx.family_active("opt-position") {
        let reps = if ctx.slow_tool { 1 } else { tier.pick(12u64, 300u64) };
        let mut idx = 0u64;
        for n in 1..=7usize {
            for pos in 0..n {
                for rep in 0..reps {
                    idx += 1;
                    if !ctx.take("opt-position", idx) {
                        continue;
                    }
                    let mut r = ctx.rng("opt-position", idx);
                    let mut g = Gen::new(&mut r, Cfg { edns: 0, max_rest: 10, exotic: false, ..Default::default() });
                    let mut m = MsgM { id: idx as u16, flags: 0x8400, ..Default::default() };
                    if rep % 2 == 1 {
                        m.secs[0].push(g.record().to_wire());
                    }
                    for k in 0..n {
                        if k == pos {
                            let opts = if rep % 3 == 0 { vec![] } else { vec![(10u16, vec![1, 2, 3, 4, 5, 6, 7, 8]), (3, vec![])] };
                            m.secs[2].push(RRM::new(vec![], 41, 1232, 0, Rd::Fields(vec![F::Pairs(opts)])));
                        } else {
                            let mut rr = g.record().to_wire();
                            rr.ttl = 1000 + k as u32; // distinguishable whatever the generator produced
                            m.secs[2].push(rr);
                        }
                    }
                    let b = encode(&m, if rep % 4 < 2 { Plan::None } else { Plan::Canonical }).bytes;
                    ctx.add("opt_position_cases", 1);
                    check_bytes(ctx, "opt-position", idx, &b);
                }
            }
        }
    }
    // several OPT records in one additional section (every subset of two or more positions among 2..6 records, the others
    // distinguishable): whatever the library does with the OPT records, the others stay, in order
    if ctx.family_active("opt-multi") {
        let reps = if ctx.slow_tool { 1 } else { tier.pick(4u64, 100u64) };
        let mut idx = 0u64;
        for n in 2..=6usize {
            for mask in 0u32..(1 << n) {
                if mask.count_ones() < 2 {
                    continue;
                }
                for rep in 0..reps {
                    idx += 1;
                    if !ctx.take("opt-multi", idx) {
                        continue;
                    }
                    let b = multi_opt_msg(ctx, idx, n, mask, rep);
                    ctx.add("opt_multi_cases", 1);
                    check_bytes(ctx, "opt-multi", idx, &b);
                }
            }
        }
    }
    // an owner name that is a pointer to an earlier byte which, read as a label length, covers the pointer itself and the
    // record's own fixed part (legal per RFC 1035: a pointer may lead anywhere before itself): the entry still occupies
    // exactly two name bytes, and the entries after it must not be read from the middle of it
    if ctx.family_active("ptr-straddle") {
        let mut idx = 0u64;
        for l in 13usize..=45 {
            for variant in 0..4usize {
                idx += 1;
                if !ctx.take("ptr-straddle", idx) {
                    continue;
                }
                let mut b = vec![0x51, (l as u8), 0x84, 0, 0, 0, 0, 3, 0, 0, 0, 0];
                // record 1: opaque, its last RDATA byte is the label length the pointer will land on
                let pad = 1 + (l + variant) % 5;
                b.extend_from_slice(&[0, 0xFF, 0x01, 0, 1, 0, 0, 0, 7]);
                b.extend_from_slice(&((pad + 1) as u16).to_be_bytes());
                b.extend(std::iter::repeat(0xAA).take(pad));
                let t = b.len();
                b.push(l as u8);
                // record 2: owner = pointer to t
                b.push(0xC0 | (t >> 8) as u8);
                b.push(t as u8);
                b.extend_from_slice(&[0xFF, 0x02, 0, 1, 0, 1, 0, 0]);
                // the label of length l covers pointer (2) + fixed part (10) + the first l - 12 RDATA bytes
                let covered = l - 12;
                let mut rd: Vec<u8> = (0..covered).map(|i| 0x61 + (i % 26) as u8).collect();
                match variant {
                    0 => rd.push(0),                                    // the name ends right there
                    1 => rd.extend_from_slice(&[2, b'x', b'y', 0]),     // one more label, then the root
                    2 => rd.extend_from_slice(&[1, b'z', 0, 0xEE, 0xEE]), // further RDATA after the name's end
                    _ => rd.extend_from_slice(&[0xC0, 12 + 9 + 2]),       // continues with a pointer into record 1's RDATA (0xAA.. is not a valid label run: may be rejected by both)
                }
                b.extend_from_slice(&(rd.len() as u16).to_be_bytes());
                b.extend_from_slice(&rd);
                // record 3: an A record that must come out intact
                b.extend_from_slice(&[1, b'e', 0, 0, 1, 0, 1, 0, 0, 0, 60, 0, 4, 10, 0, 0, 1]);
                ctx.add("pointer_straddle_cases", 1);
                check_bytes(ctx, "ptr-straddle", idx, &b);
            }
        }
    }
    // the same with a second label whose data holds what looks like the fixed part of a record: a parser that loses track of
    // "I am behind a pointer" when the expansion passes the pointer's own offset resumes inside that label and returns
    // the decoy as the second entry
    if ctx.family_active("ptr-straddle-decoy") {
        let mut idx = 0u64;
        for c in 1usize..=24 {
            for m2 in [c + 10, c + 11, c + 17, 40 + c % 7, 63] {
                idx += 1;
                if m2 < c + 10 || m2 > 63 || !ctx.take("ptr-straddle-decoy", idx) {
                    continue;
                }
                let l = 12 + c;
                let mut b = vec![0x52, (idx as u8), 0x84, 0, 0, 0, 0, 3, 0, 0, 0, 0];
                b.extend_from_slice(&[0, 0xFF, 0x01, 0, 1, 0, 0, 0, 7, 0, 3, 0xAA, 0xAA]);
                let t = b.len();
                b.push(l as u8);
                b.push(0xC0 | (t >> 8) as u8);
                b.push(t as u8);
                b.extend_from_slice(&[0xFF, 0x02, 0, 1, 0, 1, 0, 0]);
                let mut rd: Vec<u8> = vec![0x62; c];
                rd.push(m2 as u8);
                let mut d: Vec<u8> = (0..m2).map(|i| 0x41 + (i % 26) as u8).collect();
                // where such a parser resumes: offset m2 - 9 of the RDATA, that is offset m2 - 10 - c of this label's data
                let at = m2 - 10 - c;
                d[at..at + 10].copy_from_slice(&[0xFF, 0x03, 0, 1, 0, 0, 0, 5, 0, (c + 1) as u8]);
                rd.extend_from_slice(&d);
                rd.push(0);
                b.extend_from_slice(&(rd.len() as u16).to_be_bytes());
                b.extend_from_slice(&rd);
                b.extend_from_slice(&[1, b'e', 0, 0, 1, 0, 1, 0, 0, 0, 60, 0, 4, 10, 0, 0, 1]);
                ctx.add("pointer_straddle_decoy_cases", 1);
                check_bytes(ctx, "ptr-straddle-decoy", idx, &b);
            }
        }
    }
    // overstated counts over minimal entries: the header announces more entries than the bytes hold
    if ctx.family_active("overcount") {
        let q_root: &[u8] = &[0, 0, 1, 0, 1];
        let q_a: &[u8] = &[1, b'a', 0, 0, 16, 0, 1];
        let rr_a: &[u8] = &[0, 0, 1, 0, 1, 0, 0, 0, 5, 0, 4, 9, 9, 9, 9];
        let rr_empty: &[u8] = &[1, b'b', 0, 0, 16, 0, 1, 0, 0, 0, 0, 0, 0];
        let mut idx = 0u64;
        for sec in 0..4usize {
            for present in 0..=3usize {
                for over in [1usize, 2, 3, 5, 255, 65535] {
                    for variant in 0..2usize {
                        for tail in [0usize, 1, 4] {
                            idx += 1;
                            if !ctx.take("overcount", idx) {
                                continue;
                            }
                            let mut b = vec![0x12, 0x34, 0x80, 0, 0, 0, 0, 0, 0, 0, 0, 0];
                            let entry: &[u8] = match (sec, variant) { (0, 0) => q_root, (0, _) => q_a, (_, 0) => rr_a, _ => rr_empty };
                            for _ in 0..present {
                                b.extend_from_slice(entry);
                            }
                            b.extend_from_slice(&entry[..tail.min(entry.len() - 1)]);
                            let announced = (present + over).min(65535) as u16;
                            b[4 + 2 * sec..6 + 2 * sec].copy_from_slice(&announced.to_be_bytes());
                            ctx.add("overstated_count_cases", 1);
                            check_bytes(ctx, "overcount", idx, &b);
                        }
                    }
                }
            }
        }
    }
    // C01 corpus: valid messages, every cut, every field perturbation
    let per_type = if ctx.slow_tool { 1 } else { tier.pick(24u64, 200u64) };
    for ci in 0..42 * per_type {
        if !ctx.take("corpus", ci) {
            continue;
        }
        let (_, enc) = corpus_msg(seed, ci);
        let b = &enc.bytes;
        check_bytes(ctx, "corpus", ci, b);
        for cut in 0..b.len() {
            check_bytes(ctx, "corpus", ci, &b[..cut]);
        }
        let mut m = b.clone();
        for f in &enc.fields {
            for delta in [1u8, 0xFF] {
                let o = f.off + f.width - 1;
                let orig = m[o];
                m[o] = orig.wrapping_add(delta);
                check_bytes(ctx, "corpus", ci, &m);
                m[o] = orig;
            }
        }
    }
    let samples = sample_file_messages();
    let nh = if ctx.slow_tool { 20 } else { tier.pick(1_500_000u64, 80_000_000u64) };
    for idx in 0..nh {
        if !ctx.take("havoc", idx) {
            continue;
        }
        if ctx.stop("havoc") {
            break;
        }
        let mut r = ctx.rng("havoc", idx);
        let mut b = if !samples.is_empty() && r.chance(1, 8) { r.pick(&samples).clone() } else if r.bool() { stretched(seed, r.below(100_000)) } else { corpus_msg(seed, r.below(42 * 40)).1.bytes };
        havoc(&mut r, &mut b, seed);
        check_bytes(ctx, "havoc", idx, &b);
    }
}
