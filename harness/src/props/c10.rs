//! C10 – each record type's RDATA layout and type code follow its RFC.

use super::common::*;
use crate::bridge;
use crate::ctx::*;
use crate::gen::{Cfg, Gen};
use crate::model::*;
use crate::monitor;
use crate::refdns::*;
use crate::rng::{fnv, Rng};
use serde_json::json;

pub fn meta() -> Meta {
    Meta {
        rule: "for each of the 40 typed variants, boundary-biased field tuples v of the declarative reference schema: (parse) the reference encoding of a \
single-record message must parse and the fields observed through public fields + raw-byte hooks must equal v; (write) build_bytes_vec of the library value \
built from v must equal the reference encoding byte for byte (TYPE code included); (compressed) the output of the compressing writer must parse back to v; (owned) the into_owned() copies of the parsed values must show the same fields and serialise to the same encoding. Structural rejections: LOC version != 0, SVCB keys equal/decreasing, \
NSEC windows equal/decreasing, inner lengths (char-string, option, SvcParam, bitmap) overrunning the RDATA (with and without bytes following in the \
message) must be rejected. The repository's dnspython-produced vectors are decoded by both sides and compared. non-trivial = every tuple; distinct = \
hash of (type, tuple)",
        assumptions: &["schema table of DESIGN.md appendix A", "ISDN without sub-address and zero-string TXT are outside the library's documented model"],
        exhaustive: false,
        min_distinct: 5000,
    }
}

fn single(p_id: u16, rec: RecSem) -> PktM {
    let mut p = PktM { id: p_id, flags: 0x8000, ..Default::default() };
    p.secs[0].push(rec);
    p
}

pub fn tuple_case(ctx: &mut Ctx, code: u16, idx: u64) {
    let mut r = ctx.rng("tuple", idx);
    let mut g = Gen::new(&mut r, Cfg { share: 20, max_rest: 70, ..Default::default() });
    let tname = type_name(code);
    let p = if code == 41 {
        let mut p = PktM { id: idx as u16, flags: 0x8000, ..Default::default() };
        p.edns = Some(g.edns());
        p
    } else {
        let mut rec = g.record_of(code);
        // NSEC with 1..4 windows, TXT 1..8, SVCB 0..6, IPSECKEY all gateways are covered by the generator; force variety
        if code == 45 {
            if let Rd::Fields(f) = &mut rec.rd {
                let gt = idx % 4;
                f[1] = F::Int(gt);
                f[3] = F::Gw(match gt {
                    0 => GwM::None,
                    1 => GwM::V4([192, 0, 2, (idx % 256) as u8]),
                    2 => { let mut a = [0u8; 16]; a[0] = 0x20; a[1] = 1; a[15] = (idx % 256) as u8; GwM::V6(a) }
                    _ => GwM::Name(g.name()),
                });
            }
        }
        single(idx as u16, rec)
    };
    ctx.case(true, fnv(format!("{:?}", p).as_bytes()));
    ctx.add(&format!("tuples_{}", tname), 1);
    ctx.sample(&format!("tuple-{}", tname), || pkt_json(&p));
    let reference = encode(&p.to_wire(0), Plan::None).bytes;
    let case = || gen_case("tuple", idx, &p, json!({"reference_encoding": hex(&reference)}));
    // parse side
    match parse_obs(&reference) {
        Err(pn) => ctx.panic_violation("Packet::parse", &pn, case()),
        Ok(Err(e)) => ctx.violation("parse-rfc-encoding", &format!("rfc-encoding-rejected:{}", tname), format!("canonical RFC encoding rejected: {}", e), case()),
        Ok(Ok(obs)) => {
            if let Some(d) = diff_pkt(&p, &obs) {
                ctx.violation("parse-rfc-encoding", &format!("parsed-fields-differ:{}", tname), format!("fields parsed from the RFC encoding differ: {}", d), case());
            } else {
                ctx.count("parsed_fields_equal");
            }
        }
    }
    // the same through the owned form: the values parsed from the RFC encoding, converted with into_owned,
    // still are the RFC's field values and still serialise to that encoding
    let owned = monitor::guard(|| {
        let pk = simple_dns::Packet::parse(&reference).ok()?;
        let mut o = pk.clone();
        o.questions = pk.questions.iter().map(|q| q.clone().into_owned()).collect();
        o.answers = pk.answers.iter().map(|r| r.clone().into_owned()).collect();
        o.name_servers = pk.name_servers.iter().map(|r| r.clone().into_owned()).collect();
        o.additional_records = pk.additional_records.iter().map(|r| r.clone().into_owned()).collect();
        if let Some(opt) = pk.opt() {
            *o.opt_mut() = Some(opt.clone().into_owned());
        }
        Some((bridge::observe(&o), o.build_bytes_vec().ok()))
    });
    match owned {
        Err(pn) => ctx.panic_violation("Packet::into_owned", &pn, case()),
        Ok(None) => {}
        Ok(Some((obs, bytes))) => {
            if let Some(d) = diff_pkt(&p, &obs) {
                ctx.violation("parse-rfc-encoding", &format!("owned-fields-differ:{}", tname), format!("fields of the into_owned() copy of the parsed packet differ from the RFC's: {}", d), case());
            } else if bytes.as_deref() != Some(&reference[..]) {
                ctx.violation("write-rfc-encoding", &format!("owned-written-bytes-differ:{}", tname), "the into_owned() copy of the parsed packet does not serialise to the RFC encoding".into(), case());
            } else {
                ctx.count("owned_copies_equal");
            }
        }
    }
    // write side
    let lib = match monitor::guard(|| bridge::to_lib(&p)) {
        Ok(Ok(l)) => l,
        _ => return,
    };
    match build(&lib, false) {
        Built::Ok(out) => {
            if out != reference {
                let at = out.iter().zip(reference.iter()).position(|(a, b)| a != b).unwrap_or(out.len().min(reference.len()));
                ctx.violation("write-rfc-encoding", &format!("written-bytes-differ:{}", tname),
                    format!("library wrote {} bytes, RFC encoding has {}; first difference at offset {}", out.len(), reference.len(), at),
                    gen_case("tuple", idx, &p, json!({"reference_encoding": hex(&reference), "library_encoding": hex(&out)})));
            } else {
                ctx.count("written_bytes_equal");
            }
        }
        Built::Err(e) => ctx.violation("write-rfc-encoding", &format!("write-failed:{}", tname), e, case()),
        Built::Panic(pn) => ctx.panic_violation("build_bytes_vec", &pn, case()),
    }
    // the compressing writer has its own per-type code: what it writes must carry the same field values (its byte layout
    // may differ from the canonical encoding only by compression pointers)
    match build(&lib, true) {
        Built::Ok(out) => match parse_obs(&out) {
            Ok(Ok(obs)) => {
                if let Some(d) = diff_pkt(&p, &obs) {
                    ctx.violation("write-rfc-encoding", &format!("compressed-writer-fields-differ:{}", tname), format!("fields read back from build_bytes_vec_compressed differ: {}", d),
                        gen_case("tuple", idx, &p, json!({"reference_encoding": hex(&reference), "library_encoding": hex(&out)})));
                } else {
                    ctx.count("compressed_writer_fields_equal");
                }
                // layout: the types whose RFCs (and RFC 3597 §4) forbid compression of the names inside their RDATA carry them in full
                if let Ok(t) = decode_typed(&out) {
                    let forbidden = (0..3).flat_map(|sec| t.rd_names[sec].iter().flatten()).filter(|np| np.comp == Comp::Never && !np.name.ptrs.is_empty()).count();
                    if forbidden > 0 {
                        ctx.violation("write-rfc-encoding", &format!("compressed-writer-compresses-forbidden-name:{}", tname),
                            format!("build_bytes_vec_compressed wrote {} name(s) inside {} RDATA with a compression pointer; this type's layout carries its names in full", forbidden, tname),
                            gen_case("tuple", idx, &p, json!({"reference_encoding": hex(&reference), "library_encoding": hex(&out)})));
                    }
                }
            }
            Ok(Err(e)) => ctx.violation("write-rfc-encoding", &format!("compressed-writer-output-rejected:{}", tname), e, case()),
            Err(pn) => ctx.panic_violation("Packet::parse (compressed output)", &pn, case()),
        },
        Built::Err(e) => ctx.violation("write-rfc-encoding", &format!("compressed-write-failed:{}", tname), e, case()),
        Built::Panic(pn) => ctx.panic_violation("build_bytes_vec_compressed", &pn, case()),
    }
}

/// encodings that break a structural rule: must be rejected
pub fn rejection_case(ctx: &mut Ctx, idx: u64) {
    let mut r = ctx.rng("reject", idx);
    let kind = idx % 9;
    let follow = (idx / 9) % 2 == 1; // another record follows, so an overrun stays inside the message
    let mut g = Gen::new(&mut r, Cfg { share: 0, max_rest: 10, ..Default::default() });
    let (rtype, rdata, what): (u16, Vec<u8>, &str) = match kind {
        0 => {
            let mut f = g.fields(29);
            f[0] = F::Int(g.r.range(1, 255));
            (29, encode_rdata_plain(29, &Rd::Fields(f)), "loc-version")
        }
        1 | 2 => {
            let t = if g.r.bool() { 64 } else { 65 };
            let k1 = g.r.int(16) as u16;
            let k2 = if kind == 1 { k1 } else { g.r.below(k1 as u64 + 1) as u16 };
            let mut f = g.fields(t);
            f[2] = F::Pairs(vec![(k1, g.r.bytes(3)), (k2, g.r.bytes(2))]);
            (t, encode_rdata_plain(t, &Rd::Fields(f)), if kind == 1 { "svcb-equal-keys" } else { "svcb-decreasing-keys" })
        }
        3 | 4 => {
            let w1 = g.r.below(256) as u16;
            let w2 = if kind == 3 { w1 } else { g.r.below(w1 as u64 + 1) as u16 };
            let mut f = g.fields(47);
            f[1] = F::Pairs(vec![(w1, g.r.bytes(2)), (w2, g.r.bytes(3))]);
            (47, encode_rdata_plain(47, &Rd::Fields(f)), if kind == 3 { "nsec-equal-windows" } else { "nsec-decreasing-windows" })
        }
        5 => {
            // char-string length overrunning the RDATA
            let t = *g.r.pick(&[13u16, 16, 35, 257, 20]);
            let rd = encode_rdata_plain(t, &Rd::Fields(g.fields(t)));
            let enc = encode(&single(1, RecSem { name: vec![], rtype: t, class: 1, flush: false, ttl: 0, rd: Rd::Fields(decode_rdata(&rd, 0, rd.len(), t).map(|x| x.0).unwrap_or_default()) }).to_wire(0), Plan::None);
            let strs: Vec<&FieldRef> = enc.fields.iter().filter(|f| f.kind == FK::StrLen).collect();
            let base = enc.bytes.len() - rd.len();
            let f = strs[strs.len() - 1]; // last string of the RDATA
            let mut rd2 = rd.clone();
            let o = f.off - base;
            let remaining = rd.len() - o - 1;
            rd2[o] = (remaining as u64 + g.r.range(1, 20)).min(255) as u8;
            if rd2[o] as usize <= remaining { return; }
            (t, rd2, "char-string-overrun")
        }
        6 => {
            let mut rd = vec![0, 10, 0, 4, 1, 2, 3, 4];
            rd[3] = g.r.range(5, 200) as u8;
            (41, rd, "opt-option-overrun")
        }
        7 => {
            let t = 64;
            let mut rd = vec![0, 1, 0, 0, 3, 0, 2, 1, 2];
            rd[6] = g.r.range(3, 100) as u8;
            (t, rd, "svcparam-overrun")
        }
        _ => {
            let mut rd = vec![0, 0, 2, 0xAA, 0xBB];
            rd[2] = g.r.range(3, 32) as u8;
            (47, rd, "nsec-bitmap-overrun")
        }
    };
    let mut m = MsgM { id: idx as u16, flags: 0x8000, ..Default::default() };
    let sec = if rtype == 41 { 2 } else { 0 };
    m.secs[sec].push(RRM::new(vec![b"r".to_vec()], rtype, if rtype == 41 { 1232 } else { 1 }, 0, Rd::Opaque(rdata)));
    if follow {
        // 40 bytes of a following record so that an inner overrun does not leave the message
        m.secs[sec].push(RRM::new(vec![b"next".to_vec()], 16, 1, 0, Rd::Opaque({ let mut v = vec![39u8]; v.extend(vec![b'x'; 39]); v })));
    }
    let bytes = encode(&m, Plan::None).bytes;
    ctx.case(true, fnv(&bytes));
    ctx.add(&format!("rejection_cases_{}", what), 1);
    match parse_obs(&bytes) {
        Err(pn) => ctx.panic_violation("Packet::parse", &pn, case_bytes_json("reject", idx, &bytes)),
        Ok(Err(_)) => ctx.count("structural_violations_rejected"),
        Ok(Ok(_)) => ctx.violation("structural-rules", &format!("accepted-invalid:{}", what),
            format!("an encoding that breaks the rule '{}' was accepted (following record present: {})", what, follow), case_bytes_json("reject", idx, &bytes)),
    }
}

fn vectors(ctx: &mut Ctx) {
    let msgs = super::c01::sample_file_messages();
    for (i, m) in msgs.iter().enumerate() {
        if !ctx.take("vectors", i as u64) {
            continue;
        }
        ctx.case(true, fnv(m));
        let case = || case_bytes_json("vectors", i as u64, m);
        let t = match decode_typed(m) {
            Ok(t) => t,
            Err(e) => {
                ctx.inconclusive.push(format!("reference decoder fails on repository vector {}: {:?}", i, e));
                continue;
            }
        };
        match parse_obs(m) {
            Ok(Ok(obs)) => {
                let mut same = obs.secs[0].len() == t.msg.secs[0].len();
                for (a, b) in obs.secs[0].iter().zip(t.msg.secs[0].iter()) {
                    same &= a.to_wire() == *b;
                }
                if !same {
                    ctx.violation("parse-rfc-encoding", "dnspython-vector-differs", "library and reference decoder disagree on a dnspython-produced vector".into(), case());
                } else {
                    ctx.add("dnspython_vector_records_agree", obs.secs[0].len() as u64);
                }
            }
            Ok(Err(e)) => ctx.violation("parse-rfc-encoding", "dnspython-vector-rejected", e, case()),
            Err(pn) => ctx.panic_violation("Packet::parse", &pn, case()),
        }
    }
}

/// public convenience constructors (SVCB parameter setters, From<IpAddr>, cache-flush helpers): the values they
/// produce must serialise to the RFC layout as well
fn helper_case(ctx: &mut Ctx, idx: u64) {
    use simple_dns::rdata::{RData, A, AAAA, SVCB};
    use simple_dns::{CharacterString, Packet, ResourceRecord, CLASS};
    let mut r = ctx.rng("helpers", idx);
    let mut g = Gen::new(&mut r, Cfg { share: 0, ..Default::default() });
    let owner = g.name();
    let target = g.name();
    let prio = g.r.int(16) as u16;
    let mandatory: Vec<u16> = (0..g.r.usize(0, 3)).map(|_| g.r.below(7) as u16).collect();
    let alpn: Vec<Vec<u8>> = (0..g.r.usize(0, 3)).map(|_| { let n = g.r.usize(1, 9); (0..n).map(|_| b'a' + g.r.below(26) as u8).collect() }).collect();
    let port = g.r.int(16) as u16;
    let v4: Vec<u32> = (0..g.r.usize(0, 3)).map(|_| g.r.int(32) as u32).collect();
    let v6: Vec<u128> = (0..g.r.usize(0, 2)).map(|_| ((g.r.next() as u128) << 64) | g.r.next() as u128).collect();
    let use_ = g.r.below(64);
    let ip4 = std::net::Ipv4Addr::new(g.r.u8(), g.r.u8(), g.r.u8(), g.r.u8());
    let ip6 = std::net::Ipv6Addr::from(((g.r.next() as u128) << 64) | g.r.next() as u128);
    let ttl = g.ttl();
    ctx.case(true, fnv(format!("h{:?}{:?}{}{:?}{:?}{}{:?}{:?}{}", owner, target, prio, mandatory, alpn, port, v4, v6, use_).as_bytes()));
    // expected parameter map, written from RFC 9460 section 7 / 14.3
    let mut want: std::collections::BTreeMap<u16, Vec<u8>> = Default::default();
    if use_ & 1 != 0 { want.insert(0, mandatory.iter().flat_map(|k| k.to_be_bytes()).collect()); }
    if use_ & 2 != 0 { want.insert(1, alpn.iter().flat_map(|a| { let mut v = vec![a.len() as u8]; v.extend_from_slice(a); v }).collect()); }
    if use_ & 4 != 0 { want.insert(2, vec![]); }
    if use_ & 8 != 0 { want.insert(3, port.to_be_bytes().to_vec()); }
    if use_ & 16 != 0 { want.insert(4, v4.iter().flat_map(|a| a.to_be_bytes()).collect()); }
    if use_ & 32 != 0 { want.insert(6, v6.iter().flat_map(|a| a.to_be_bytes()).collect()); }
    let case = || json!({"family": "helpers", "idx": idx, "use_mask": use_, "port": port});
    let res = monitor::guard(|| -> Result<(Vec<u8>, Vec<(u16, Vec<u8>)>), String> {
        let mut s = SVCB::new(prio, bridge::lib_name(&target));
        // setters are applied in a scrambled order: the wire order must still be ascending
        for step in [5usize, 2, 0, 4, 1, 3] {
            match step {
                0 if use_ & 1 != 0 => s.set_mandatory(mandatory.iter().copied()).map_err(|e| format!("{:?}", e))?,
                1 if use_ & 2 != 0 => s.set_alpn(alpn.iter().map(|a| CharacterString::new(a).unwrap())).map_err(|e| format!("{:?}", e))?,
                2 if use_ & 4 != 0 => s.set_no_default_alpn(),
                3 if use_ & 8 != 0 => s.set_port(port),
                4 if use_ & 16 != 0 => s.set_ipv4hint(v4.iter().copied()).map_err(|e| format!("{:?}", e))?,
                5 if use_ & 32 != 0 => s.set_ipv6hint(v6.iter().copied()).map_err(|e| format!("{:?}", e))?,
                _ => {}
            }
        }
        let seen: Vec<(u16, Vec<u8>)> = s.iter_params().map(|(k, v)| (k, v.to_vec())).collect();
        for (k, v) in &seen {
            if s.get_param(*k) != Some(&v[..]) {
                return Err("get_param disagrees with iter_params".into());
            }
        }
        let mut p = Packet::new_reply(7);
        p.answers.push(ResourceRecord::new(bridge::lib_name(&owner), CLASS::IN, ttl, RData::SVCB(s)));
        p.answers.push(ResourceRecord::new(bridge::lib_name(&owner), CLASS::IN, ttl, RData::A(A::from(ip4))).with_cache_flush(true));
        p.answers.push(ResourceRecord::new(bridge::lib_name(&owner), CLASS::CH, ttl, RData::AAAA(AAAA::from(ip6))).to_cache_flush_record());
        Ok((p.build_bytes_vec().map_err(|e| format!("{:?}", e))?, seen))
    });
    let mut m = PktM { id: 7, flags: 0x8000, ..Default::default() };
    m.secs[0].push(RecSem { name: owner.clone(), rtype: 64, class: 1, flush: false, ttl, rd: Rd::Fields(vec![F::Int(prio as u64), F::Name(target.clone()), F::Pairs(want.iter().map(|(k, v)| (*k, v.clone())).collect())]) });
    m.secs[0].push(RecSem { name: owner.clone(), rtype: 1, class: 1, flush: true, ttl, rd: Rd::Fields(vec![F::Int(u32::from_be_bytes(ip4.octets()) as u64)]) });
    m.secs[0].push(RecSem { name: owner.clone(), rtype: 28, class: 3, flush: true, ttl, rd: Rd::Fields(vec![F::Bytes(ip6.octets().to_vec())]) });
    let reference = encode(&m.to_wire(0), Plan::None).bytes;
    match res {
        Err(pn) => ctx.panic_violation("SVCB/A/AAAA helper constructors", &pn, case()),
        Ok(Err(e)) => ctx.violation("write-rfc-encoding", "helper-constructor-failed", e, case()),
        Ok(Ok((bytes, seen))) => {
            let want_v: Vec<(u16, Vec<u8>)> = want.into_iter().collect();
            if seen != want_v {
                ctx.violation("write-rfc-encoding", "svcb-helper-params-differ", format!("parameters set through the helpers are {:?}, RFC 9460 formats give {:?}", seen, want_v), case());
            } else if bytes != reference {
                let at = bytes.iter().zip(reference.iter()).position(|(a, b)| a != b).unwrap_or(bytes.len().min(reference.len()));
                ctx.violation("write-rfc-encoding", "helper-built-bytes-differ", format!("records built with From<IpAddr> / cache-flush helpers / SVCB setters differ from the RFC encoding at offset {}", at),
                    json!({"family": "helpers", "idx": idx, "library": hex(&bytes), "reference": hex(&reference)}));
            } else {
                ctx.count("helper_constructed_records_equal");
            }
        }
    }
}

pub fn run(ctx: &mut Ctx) {
    if let Some(tape) = ctx.tape_case() {
        // replay of a case found by the coverage-guided `model` target: the tape drives every generator decision
        super::model_case("C10", ctx, &tape);
        return;
    }
    let nh = if ctx.slow_tool { 6 } else { ctx.tier.pick(20_000u64, 1_000_000u64) };
    // values made by every public constructor of the one type that has several (TXT; some of them cache the encoded size)
    if ctx.family_active("txt-ctor") {
        let nt = if ctx.slow_tool { 30 } else { ctx.tier.pick(2_000u64, 100_000u64) };
        for idx in 0..nt {
            if ctx.take("txt-ctor", idx) {
                super::c04::txt_ctor_case(ctx, idx, false);
            }
        }
    }
    for idx in 0..nh {
        if ctx.take("helpers", idx) {
            if ctx.stop("helpers") {
                break;
            }
            helper_case(ctx, idx);
        }
    }
    if let Some(c) = ctx.replay_case.clone() {
        if c["family"].as_str() == Some("reject") || c["family"].as_str() == Some("vectors") {
            // regenerated below through `only`
        }
    }
    let tier = ctx.tier;
    let per_type = if ctx.slow_tool { 2 } else { tier.pick(4_000u64, 400_000u64) };
    for (ti, code) in TYPED_CODES.iter().enumerate() {
        for k in 0..per_type {
            let idx = ti as u64 * 10_000_000 + k;
            if ctx.take("tuple", idx) {
                if ctx.stop("tuple") {
                    break;
                }
                tuple_case(ctx, *code, idx);
            }
        }
    }
    let nrej = if ctx.slow_tool { 18 } else { tier.pick(60_000u64, 3_000_000u64) };
    for idx in 0..nrej {
        if ctx.take("reject", idx) {
            if ctx.stop("reject") {
                break;
            }
            rejection_case(ctx, idx);
        }
    }
    if ctx.family_active("vectors") {
        vectors(ctx);
    }
    let _ = Rng::new(0);
}
