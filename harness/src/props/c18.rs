//! C18 – type/class codes map one-to-one and query matching is exact.

use crate::bridge;
use crate::ctx::*;
use crate::gen::{Cfg, Gen};
use crate::model::*;
use crate::monitor;
use crate::refdns::*;
use serde_json::json;
use simple_dns::rdata::RData;
use simple_dns::{Packet, CLASS, QCLASS, QTYPE, TYPE};
use std::convert::TryFrom;

pub fn meta() -> Meta {
    Meta {
        rule: "exhaustive over all 65536 codes: u16::from(TYPE::from(c)) == c, TYPE::from(c) is the named variant for the 41 IANA numbers of an independent table (NULL = 10 included) and \
Unknown(c) otherwise; QTYPE::try_from(c) is Ok and round-trips for supported codes and 251..255 and Err otherwise; CLASS for {1,2,3,4,254}; QCLASS additionally 255; the same through Packet::parse of a one-question message for all 65536 values of the class field (QU bit = top bit, class = the other 15) and of the type field. Matching matrix: for \
every supported type code (and several unknown ones) a record obtained both by construction and by parsing a reference-encoded message is matched against every question type \
{TYPE(t') for all supported t', ANY, MAILB}: expected ANY or t'==t or MAILB with t in {MB,MG,MR}; all class x qclass pairs, on the built record, the parsed record and the into_owned() copy of each; rdata.type_code() == TYPE::from(wire code) including NULL, unknown and empty RDATA, and for RData::NULL(code, opaque data) built by hand for all 65536 codes (matched against the same questions for the 48 record codes). \
non-trivial = every case; distinct = hash of the case",
        assumptions: &["AXFR/IXFR/MAILA matching is outside the property's quantifier"],
        exhaustive: true,
        min_distinct: 60_000,
    }
}

/// independent table: library variant -> IANA number (written from the RFCs, not from the library's constants)
fn iana(t: TYPE) -> Option<u16> {
    Some(match t {
        TYPE::A => 1,
        TYPE::NS => 2,
        TYPE::MD => 3,
        TYPE::MF => 4,
        TYPE::CNAME => 5,
        TYPE::SOA => 6,
        TYPE::MB => 7,
        TYPE::MG => 8,
        TYPE::MR => 9,
        TYPE::NULL => 10,
        TYPE::WKS => 11,
        TYPE::PTR => 12,
        TYPE::HINFO => 13,
        TYPE::MINFO => 14,
        TYPE::MX => 15,
        TYPE::TXT => 16,
        TYPE::RP => 17,
        TYPE::AFSDB => 18,
        TYPE::ISDN => 20,
        TYPE::RouteThrough => 21,
        TYPE::NSAP => 22,
        TYPE::NSAP_PTR => 23,
        TYPE::AAAA => 28,
        TYPE::LOC => 29,
        TYPE::SRV => 33,
        TYPE::NAPTR => 35,
        TYPE::KX => 36,
        TYPE::CERT => 37,
        TYPE::OPT => 41,
        TYPE::DS => 43,
        TYPE::IPSECKEY => 45,
        TYPE::RRSIG => 46,
        TYPE::NSEC => 47,
        TYPE::DNSKEY => 48,
        TYPE::DHCID => 49,
        TYPE::ZONEMD => 63,
        TYPE::SVCB => 64,
        TYPE::HTTPS => 65,
        TYPE::EUI48 => 108,
        TYPE::EUI64 => 109,
        TYPE::CAA => 257,
        _ => return None,
    })
}

fn supported(c: u16) -> bool {
    c == 10 || TYPED_CODES.contains(&c)
}

pub fn run(ctx: &mut Ctx) {
    if ctx.family_active("codes") {
        for c in 0..=0xFFFFu32 {
            let c = c as u16;
            if !ctx.take("codes", c as u64) {
                continue;
            }
            ctx.case(true, c as u64 ^ 0x18_0000);
            let case = || json!({"family": "codes", "idx": c});
            let r = monitor::guard(|| {
                let t = TYPE::from(c);
                let back: u16 = t.into();
                let q = QTYPE::try_from(c).ok().map(|q| u16::from(q));
                let cl = CLASS::try_from(c).ok().map(|x| x as u16);
                let qc = QCLASS::try_from(c).ok().map(|x| u16::from(x));
                let opaque = RData::NULL(c, simple_dns::rdata::NULL::new(&[]).unwrap()).type_code();
                if opaque != TYPE::from(c) {
                    panic!("VERIF-ORACLE type_code of RData::NULL({}, ..) is {:?}", c, opaque);
                }
                (t, back, q, cl, qc)
            });
            let (t, back, q, cl, qc) = match r {
                Err(pn) if pn.message.contains("VERIF-ORACLE") => {
                    ctx.violation("iana", "type-code-of-opaque-record", pn.message.replace("VERIF-ORACLE ", ""), case());
                    continue;
                }
                Ok(x) => x,
                Err(pn) => {
                    ctx.panic_violation("code conversions", &pn, case());
                    continue;
                }
            };
            if back != c {
                ctx.violation("roundtrip", "type-code-roundtrip", format!("u16::from(TYPE::from({})) = {}", c, back), case());
            }
            if supported(c) {
                if iana(t) != Some(c) {
                    ctx.violation("iana", "type-mnemonic-wrong", format!("TYPE::from({}) = {:?}", c, t), case());
                }
            } else if t != TYPE::Unknown(c) {
                ctx.violation("iana", "unsupported-code-aliased", format!("TYPE::from({}) = {:?}, expected Unknown({})", c, t, c), case());
            }
            let q_ok = supported(c) || (251..=255).contains(&c);
            match (q, q_ok) {
                (Some(b), true) if b == c => {}
                (None, false) => {}
                (got, _) => ctx.violation("qtype", "qtype-conversion", format!("QTYPE::try_from({}) -> {:?} (supported: {})", c, got, q_ok), case()),
            }
            let c_ok = matches!(c, 1 | 2 | 3 | 4 | 254);
            match (cl, c_ok) {
                (Some(b), true) if b == c => {}
                (None, false) => {}
                (got, _) => ctx.violation("class", "class-conversion", format!("CLASS::try_from({}) -> {:?}", c, got), case()),
            }
            match (qc, c_ok || c == 255) {
                (Some(b), true) if b == c => {}
                (None, false) => {}
                (got, _) => ctx.violation("class", "qclass-conversion", format!("QCLASS::try_from({}) -> {:?}", c, got), case()),
            }
            ctx.count("codes_checked");
        }
        ctx.sample("codes", || json!("all 65536 codes"));
    }

    // the same tables reached through a parsed question: the 16 bits after the name and the type are the (QU bit, 15-bit class)
    // pair of RFC 6762 §5.4, nothing narrower -- a class outside the table is an error, not the class its low bits spell
    if ctx.family_active("wire-question") {
        let step = if ctx.slow_tool { 97u32 } else { 1 };
        for i in (0..=0x1FFFFu32).step_by(step as usize) {
            if !ctx.take("wire-question", i as u64) {
                continue;
            }
            let (sweep_class, code) = (i < 0x10000, (i & 0xFFFF) as u16);
            let (qt, qc) = if sweep_class { ([1u16, 16, 255, 33][(i % 4) as usize], code) } else { (code, [1u16, 0x8001, 255, 3][(i % 4) as usize]) };
            let mut bytes = vec![(i >> 8) as u8, i as u8, 0x00, 0x00, 0, 1, 0, 0, 0, 0, 0, 0];
            bytes.extend_from_slice(if i % 3 == 0 { &b"\x01a\x05local\x00"[..] } else { &b"\x00"[..] });
            bytes.extend_from_slice(&qt.to_be_bytes());
            bytes.extend_from_slice(&qc.to_be_bytes());
            ctx.case(true, i as u64 ^ 0x18_100000);
            let case = || case_bytes_json("wire-question", i as u64, &bytes);
            let got = monitor::guard(|| Packet::parse(&bytes).map(|p| p.questions.iter().map(|q| (u16::from(q.qtype), u16::from(q.qclass), q.unicast_response)).collect::<Vec<_>>()).map_err(|e| format!("{:?}", e)));
            let got = match got {
                Ok(g) => g,
                Err(pn) => {
                    ctx.panic_violation("Packet::parse", &pn, case());
                    continue;
                }
            };
            let low = qc & 0x7FFF;
            let t_ok = supported(qt) || (251..=255).contains(&qt);
            let c_ok = matches!(low, 1 | 2 | 3 | 4 | 254 | 255);
            let want = if t_ok && c_ok { Ok(vec![(qt, low, qc & 0x8000 != 0)]) } else { Err(()) };
            match (&got, &want) {
                (Ok(g), Ok(w)) if g == w => ctx.count("wire_questions_read_exactly"),
                (Err(_), Err(())) => ctx.count("wire_questions_refused"),
                _ => ctx.violation("class", if sweep_class { "wire-qclass-aliased" } else { "wire-qtype-aliased" },
                    format!("question with type field {} and class field {:#06x} parsed as {:?}; expected {:?} (type, class, unicast-response)", qt, qc, got, want), case()),
            }
        }
        ctx.sample("wire-question", || json!("all 65536 class fields and all 65536 type fields of a parsed question"));
    }

    // matching matrix
    if ctx.family_active("match") {
        // (41 included: a record holding OPT data in the answer section is a record like any other for the matching functions)
        let mut codes: Vec<u16> = TYPED_CODES.to_vec();
        // (251..255 are question-type codes: a record that carries one of them as its type code is just a record of an unknown type)
        codes.extend_from_slice(&[10, 0, 19, 99, 251, 252, 253, 254, 255, 256, 65535]);
        let mut qtypes: Vec<u16> = TYPED_CODES.to_vec();
        qtypes.extend_from_slice(&[10, 255, 253]);
        let reps = if ctx.slow_tool { 1 } else { ctx.tier.pick(30u64, 600u64) };
        for (ci, code) in codes.iter().enumerate() {
            for rep in 0..reps {
                let idx = ci as u64 * 1000 + rep;
                if !ctx.take("match", idx) {
                    continue;
                }
                let mut r = ctx.rng("match", idx);
                let mut g = Gen::new(&mut r, Cfg { share: 0, max_rest: 12, ..Default::default() });
                let variant = rep % 3; // 0: typed/opaque content, 1: empty rdata, 2: content again with other class
                let rec = if schema(*code).is_some() && variant != 1 {
                    g.record_of(*code)
                } else {
                    RecSem { name: g.name(), rtype: *code, class: *g.r.pick(&CLASSES), flush: false, ttl: 5,
                        rd: Rd::Opaque(if variant == 1 { vec![] } else { let mut b = g.blob(9); b.push(1); b }) }
                };
                let mut rec = rec;
                if *code == 41 {
                    // the CLASS slot of OPT data carries a payload size; the library files such a record under class IN
                    rec.class = 1;
                    rec.flush = false;
                    rec.name = vec![];
                }
                let mut p = PktM { id: idx as u16, flags: 0x8000, ..Default::default() };
                p.secs[0].push(rec.clone());
                let bytes = encode(&p.to_wire(0), Plan::None).bytes;
                ctx.case(true, crate::rng::fnv(&bytes));
                let case = || json!({"family": "match", "idx": idx, "type": code, "bytes": hex(&bytes)});
                let r = monitor::guard(|| {
                    let built = bridge::lib_record(&rec).map_err(|e| e)?;
                    let parsed_pkt = Packet::parse(&bytes).map_err(|e| format!("{:?}", e))?;
                    let parsed = parsed_pkt.answers.first().ok_or("no answer")?.clone();
                    let mut probs: Vec<String> = Vec::new();
                    // the owned copies must report the same type and match the same questions
                    let built_owned = built.clone().into_owned();
                    let parsed_owned = parsed.clone().into_owned();
                    // a record an application puts together from a type code and opaque data (the NULL variant is the public way to
                    // do that, for any code): its type is the one the code denotes
                    let opaque = simple_dns::ResourceRecord::new(built.name.clone(), built.class, 1, RData::NULL(*code, simple_dns::rdata::NULL::new(&[1, 2, 3]).map_err(|e| format!("{:?}", e))?));
                    let opaque_owned = opaque.clone().into_owned();
                    for (route, rr) in [("built", &built), ("parsed", &parsed), ("built-owned", &built_owned), ("parsed-owned", &parsed_owned), ("opaque-built", &opaque), ("opaque-built-owned", &opaque_owned)] {
                        let tc = rr.rdata.type_code();
                        if tc != TYPE::from(*code) {
                            probs.push(format!("type-code-of-record:{}:{}", route, match rr.rdata { RData::NULL(..) => "NULL-variant", RData::Empty(_) => "Empty-variant", _ => "typed" }));
                        }
                        for qt in &qtypes {
                            let q = QTYPE::try_from(*qt).map_err(|e| format!("{:?}", e))?;
                            let want = *qt == 255 || (*qt == *code && !(251..=255).contains(qt)) || (*qt == 253 && matches!(*code, 7 | 8 | 9));
                            if rr.match_qtype(q) != want {
                                probs.push(format!("match_qtype:{}:{}", route, if *qt == 255 { "ANY" } else if *qt == 253 { "MAILB" } else if *qt == *code { "own-type" } else { "other-type" }));
                            }
                        }
                        for qc in [1u16, 2, 3, 4, 254, 255] {
                            let q = QCLASS::try_from(qc).map_err(|e| format!("{:?}", e))?;
                            let want = qc == 255 || qc == rec.class;
                            if rr.match_qclass(q) != want {
                                probs.push(format!("match_qclass:{}", route));
                            }
                        }
                    }
                    Ok::<Vec<String>, String>(probs)
                });
                match r {
                    Err(pn) => ctx.panic_violation("matching", &pn, case()),
                    Ok(Err(e)) => ctx.notes.push(format!("match case skipped: {}", e)),
                    Ok(Ok(probs)) => {
                        ctx.add("match_evaluations", 6 * (qtypes.len() as u64 + 6));
                        let mut seen = std::collections::HashSet::new();
                        for pr in probs {
                            if seen.insert(pr.clone()) {
                                ctx.violation("matching", &format!("{}:{}", pr, if supported(*code) { type_name(*code) } else { "unknown" }),
                                    format!("record of type code {} ({}): {}", code, type_name(*code), pr), case());
                            }
                        }
                    }
                }
            }
        }
    }
}
