//! C11 – received packets survive re-serialisation.

use super::c01::{corpus_msg, havoc, sample_file_messages};
use super::common::*;
use crate::bridge;
use crate::ctx::*;
use crate::gen::{Cfg, Gen};
use crate::model::*;
use crate::monitor;
use crate::refdns::*;
use crate::rng::Rng;
use serde_json::json;
use simple_dns::Packet;

pub fn meta() -> Meta {
    Meta {
        rule: "every accepted input b: P = parse(b); build_bytes_vec(P), build_bytes_vec_compressed(P) and the writer-based write_to / write_compressed_to through a writer that accepts 3 bytes per call must succeed, their outputs must parse, and the \
re-parsed packets must equal P in every observable field (model comparison: id, flags, opcode, rcode, EDNS, questions, every record field). Inputs: \
reference-encoded messages with arbitrary legal (non-canonical) compression incl. pointers inside RDATA of non-compressible types, unknown types, \
empty RDATA for every type, OPT at any position, every 16-bit header word x small bodies, messages over 16 KiB with a name placed at every offset 16340..16400 and repeated later, RDLENGTH-stretched records, accepted members of the C01 \
corpus and of seeded havoc. non-trivial = accepted input with >= 1 record or question or a non-zero flag word; distinct = hash of bytes",
        assumptions: &["observation goes through public fields/accessors plus the read-only raw-byte hooks"],
        exhaustive: false,
        min_distinct: 2000,
    }
}

pub fn check_bytes(ctx: &mut Ctx, family: &str, idx: u64, b: &[u8]) -> bool {
    let case = || case_bytes_json(family, idx, b);
    let r = monitor::guard(|| {
        let p = match Packet::parse(b) {
            Ok(p) => p,
            Err(_) => return None,
        };
        let obs = bridge::observe(&p);
        let plain = p.build_bytes_vec().map_err(|e| format!("{:?}", e));
        let comp = p.build_bytes_vec_compressed().map_err(|e| format!("{:?}", e));
        // the writer-based entry points, through a writer that takes at most 3 bytes per call and is interrupted now and
        // then (what a socket or a chunking adapter may legitimately do)
        let mut w1 = super::c04::ShortWriter { buf: Vec::new(), pos: 0, calls: 0 };
        let streamed = p.write_to(&mut w1).map(|_| w1.buf).map_err(|e| format!("{:?}", e));
        let mut w2 = super::c04::ShortWriter { buf: Vec::new(), pos: 0, calls: 0 };
        let streamed_comp = p.write_compressed_to(&mut w2).map(|_| w2.buf).map_err(|e| format!("{:?}", e));
        Some((obs, plain, comp, streamed, streamed_comp))
    });
    let (obs, plain, comp, streamed, streamed_comp) = match r {
        Err(pn) => {
            // a panic in parse is C01's; a panic while re-serialising is ours
            if monitor::guard(|| Packet::parse(b).is_ok()).is_ok() {
                ctx.panic_violation("re-serialising a parsed packet", &pn, case());
            }
            ctx.case(false, 0);
            return false;
        }
        Ok(None) => {
            ctx.count("rejected_inputs");
            ctx.case(false, 0);
            return false;
        }
        Ok(Some(x)) => x,
    };
    let nontrivial = !obs.qs.is_empty() || obs.secs.iter().any(|s| !s.is_empty()) || (b.len() >= 4 && (b[2] != 0 || b[3] != 0));
    ctx.case_bytes(nontrivial, b);
    ctx.count("accepted_inputs");
    if obs.secs.iter().flatten().any(|r| r.rtype == 41) {
        ctx.count("accepted_with_more_than_one_opt_or_opt_outside_additional");
    }
    for s in &obs.secs {
        for r in s {
            ctx.add(&format!("accepted_records_{}", type_name(r.rtype)), 1);
        }
    }
    for (what, out) in [("build_bytes_vec", plain), ("build_bytes_vec_compressed", comp), ("write_to/short-writes", streamed), ("write_compressed_to/short-writes", streamed_comp)] {
        let out = match out {
            Ok(o) => o,
            Err(e) => {
                ctx.violation("reserialise-succeeds", &format!("reserialise-failed:{}:{}", what, first_type(&obs)),
                    format!("{} failed with {} on a packet the parser accepted", what, e), case());
                continue;
            }
        };
        match parse_obs(&out) {
            Err(pn) => ctx.panic_violation("Packet::parse (re-serialised)", &pn, case()),
            Ok(Err(e)) => ctx.violation("reserialised-parses", &format!("reserialised-rejected:{}:{}", what, first_type(&obs)),
                format!("output of {} is rejected: {}", what, e),
                json!({"family": family, "idx": idx, "bytes": hex(b), "output": hex(&out)})),
            Ok(Ok(obs2)) => {
                if let Some(d) = diff_pkt(&obs, &obs2) {
                    ctx.violation("reserialised-equal", &format!("reserialised-differs:{}:{}", diff_type(&obs, &obs2), diff_field(&obs, &obs2)),
                        format!("after {} the packet differs: {}", what, d),
                        json!({"family": family, "idx": idx, "bytes": hex(b), "output": hex(&out)}));
                } else {
                    ctx.count("reserialisations_equal");
                }
            }
        }
    }
    true
}

fn foreign_msg(seed: u64, idx: u64) -> (Vec<u8>, usize) {
    let mut r = Rng::for_case(seed, "c11-foreign", idx);
    let mut g = Gen::new(&mut r, Cfg { share: 80, max_entries: 4, max_rest: 16, edns: 35, exotic: true, ..Default::default() });
    let mut p = g.packet();
    if idx % 5 == 0 {
        // rcode/opcode from the whole range
        p.opcode = g.r.below(16) as u16;
        p.rcode = g.r.below(16) as u16 | if p.edns.is_some() { (g.r.int(8) as u16) << 4 } else { 0 };
    }
    let oi = g.r.usize(0, 5);
    let mut m = p.to_wire(oi);
    if idx % 6 == 1 {
        // further OPT records: a second (third) one in the additional section, or one in another section
        for _ in 0..g.r.usize(1, 2) {
            let opts = match g.fields(41).pop() {
                Some(f) => f,
                None => F::Pairs(vec![]),
            };
            let rr = RRM::new(if g.r.chance(1, 5) { g.name() } else { vec![] }, 41, g.r.int(16) as u16, g.r.int(32) as u32, Rd::Fields(vec![opts]));
            let sec = if g.r.chance(3, 4) { 2 } else { g.r.usize(0, 1) };
            let at = g.r.usize(0, m.secs[sec].len());
            m.secs[sec].insert(at, rr);
        }
    }
    let e = encode(&m, Plan::Arbitrary(Rng::for_case(seed, "c11-plan", idx)));
    (e.bytes, e.foreign_pointers)
}

pub fn run(ctx: &mut Ctx) {
    if let Some(c) = ctx.replay_case.clone() {
        if let Some(b) = c["bytes"].as_str().and_then(unhex) {
            check_bytes(ctx, c["family"].as_str().unwrap_or("replay"), c["idx"].as_u64().unwrap_or(0), &b);
            return;
        }
    }
    let tier = ctx.tier;
    let seed = ctx.seed;
    let n = if ctx.slow_tool { 40 } else { tier.pick(300_000u64, 20_000_000u64) };
    for idx in 0..n {
        if !ctx.take("foreign", idx) {
            continue;
        }
        let (b, fp) = foreign_msg(seed, idx);
        ctx.sample("foreign", || json!({"bytes": hex(&b), "pointers_in_non_compressible_rdata": fp}));
        if check_bytes(ctx, "foreign", idx, &b) && fp > 0 {
            ctx.count("accepted_with_foreign_compression");
        }
    }
    // foreign messages longer than 16 KiB in which a name starts just below / at / above offset 16383 and is repeated
    // later (plain or with foreign compression): re-serialising them meets the limit of what a pointer can express
    if ctx.family_active("window") && !ctx.slow_tool {
        let reps = tier.pick(2u64, 40u64);
        for off in 16340usize..=16400 {
            for rep in 0..reps {
                let idx = (off as u64) * 100 + rep;
                if !ctx.take("window", idx) {
                    continue;
                }
                let mut r = ctx.rng("window", idx);
                let p = super::c03::window_packet(&mut r, off);
                let plan = match rep % 3 { 0 => Plan::None, 1 => Plan::Canonical, _ => Plan::Arbitrary(Rng::for_case(seed, "c11-window-plan", idx)) };
                let b = encode(&p.to_wire(0), plan).bytes;
                ctx.add("messages_over_16k_with_a_name_at_the_pointer_limit", 1);
                check_bytes(ctx, "window", idx, &b);
            }
        }
    }
    // every 16-bit header word x small bodies
    if ctx.family_active("word") && !ctx.slow_tool {
        let body_q: &[u8] = &[1, b'a', 0, 0, 1, 0, 1];
        let body_opt: &[u8] = &[0, 0, 41, 4, 0xd0, 0x01, 0, 0, 0, 0, 0];
        for w in 0..=0xFFFFu64 {
            if !ctx.take("word", w) {
                continue;
            }
            let mut b = vec![0x77, 0x88];
            b.extend_from_slice(&(w as u16).to_be_bytes());
            match w % 3 {
                0 => b.extend_from_slice(&[0, 0, 0, 0, 0, 0, 0, 0]),
                1 => {
                    b.extend_from_slice(&[0, 1, 0, 0, 0, 0, 0, 0]);
                    b.extend_from_slice(body_q);
                }
                _ => {
                    b.extend_from_slice(&[0, 0, 0, 0, 0, 0, 0, 1]);
                    b.extend_from_slice(body_opt);
                }
            }
            check_bytes(ctx, "word", w, &b);
        }
    }
    // empty RDATA for every type, unknown types, OPT anywhere (explicit family)
    if ctx.family_active("empty") {
        let mut codes: Vec<u16> = TYPED_CODES.to_vec();
        codes.extend_from_slice(&[0, 10, 19, 99, 250, 255, 256, 65535]);
        for (i, c) in codes.iter().enumerate() {
            for sec in 0..3usize {
                let idx = (i * 3 + sec) as u64;
                if !ctx.take("empty", idx) {
                    continue;
                }
                let mut m = MsgM { id: 9, flags: 0x8400, ..Default::default() };
                m.secs[sec].push(RRM::new(vec![b"e".to_vec()], *c, 1, 5, Rd::Opaque(vec![])));
                m.secs[sec].push(RRM::new(vec![b"e".to_vec()], 1, 1, 5, Rd::Fields(vec![F::Int(1)])));
                let b = encode(&m, Plan::Canonical).bytes;
                ctx.add("empty_rdata_cases", 1);
                check_bytes(ctx, "empty", idx, &b);
            }
        }
    }
    let ns = if ctx.slow_tool { 20 } else { tier.pick(100_000u64, 4_000_000u64) };
    for idx in 0..ns {
        if ctx.take("stretch", idx) {
            let b = super::c05::stretched(seed, idx);
            check_bytes(ctx, "stretch", idx, &b);
        }
    }
    let per_type = if ctx.slow_tool { 1 } else { tier.pick(20u64, 200u64) };
    for ci in 0..42 * per_type {
        if !ctx.take("corpus", ci) {
            continue;
        }
        let (_, enc) = corpus_msg(seed, ci);
        let b = &enc.bytes;
        check_bytes(ctx, "corpus", ci, b);
        let mut m = b.clone();
        for f in &enc.fields {
            for delta in [1u8, 0xFF] {
                let o = f.off + f.width - 1;
                let orig = m[o];
                m[o] = orig.wrapping_add(delta);
                check_bytes(ctx, "corpus", ci, &m);
                m[o] = orig;
            }
        }
    }
    let samples = sample_file_messages();
    let nh = if ctx.slow_tool { 20 } else { tier.pick(1_000_000u64, 60_000_000u64) };
    for idx in 0..nh {
        if !ctx.take("havoc", idx) {
            continue;
        }
        if ctx.stop("havoc") {
            break;
        }
        let mut r = ctx.rng("havoc", idx);
        let mut b = if !samples.is_empty() && r.chance(1, 8) { r.pick(&samples).clone() } else if r.bool() { foreign_msg(seed, r.below(100_000)).0 } else { corpus_msg(seed, r.below(42 * 40)).1.bytes };
        havoc(&mut r, &mut b, seed);
        check_bytes(ctx, "havoc", idx, &b);
    }
}
