//! C07 – emitted compression pointers are valid and used where allowed.

use super::common::*;
use crate::bridge;
use crate::ctx::*;
use crate::gen::Gen;
use crate::model::*;
use crate::monitor;
use crate::refdns::*;
use crate::rng::fnv;
use serde_json::json;
use std::collections::HashSet;
use std::io::Cursor;

pub fn meta() -> Meta {
    Meta {
        rule: "compressed output of generated packets (C03 generator incl. the 16 KiB window sweep), produced by build_bytes_vec_compressed and by \
write_compressed_to at stream offsets 0, 2 and k, is walked by the schema-aware reference decoder; for every name occurrence (question, owner, \
RDATA name with its compressibility class) the monitor records start offset, in-place encoding and expansion. Per pointer at p with target t: \
t < p, t <= 16383, t is a label-start offset of an earlier-written name, expansion equals the model name. Names of must-not-compress kind \
(SRV, NAPTR, KX, RRSIG, NSEC, IPSECKEY, SVCB/HTTPS) contain no pointer. A question/owner/RFC 1035 RDATA name with >= 1 label whose identical \
full name was already written in a compressible position at an offset <= 16383 must be a single pointer. non-trivial = output with >= 1 pointer; \
distinct = hash of (model, writer offset)",
        assumptions: &["RP/AFSDB/RT/NSAP-PTR may or may not be compressed", "partial-suffix sharing is not demanded"],
        exhaustive: false,
        min_distinct: 500,
    }
}

struct Occ<'a> {
    off: usize,
    kind: NameKind,
    name: &'a NameOk,
}

pub fn check_output(ctx: &mut Ctx, family: &str, idx: u64, p: &PktM, out: &[u8], how: &str) {
    let case = || gen_case(family, idx, p, json!({"writer": how, "bytes": if out.len() < 3000 { hex(out) } else { format!("{} bytes", out.len()) }}));
    let t = match decode_typed(out) {
        Ok(t) => t,
        Err(e) => {
            ctx.violation("walkable", &format!("unwalkable:{}", how), format!("reference decoder failed on compressed output: {:?}", e), case());
            return;
        }
    };
    // expansion equals the intended name / record: compare with the model (OPT position is free)
    let mut want = p.to_wire(0);
    want.secs[2].retain(|r| r.rtype != 41);
    let mut got = t.msg.clone();
    got.secs[2].retain(|r| r.rtype != 41);
    got.trailing.clear();
    if got.qs != want.qs || got.secs != want.secs {
        let which = (0..3).find_map(|s| got.secs[s].iter().zip(want.secs[s].iter()).find(|(a, b)| a != b).map(|(a, _)| type_name(a.rtype))).unwrap_or("question-or-count");
        ctx.violation("expands-to-intended", &format!("expansion-differs:{}", which),
            "names/records decoded from the compressed output differ from the packet that was written".into(), case());
        return;
    }
    let mut occs: Vec<Occ> = Vec::new();
    for q in &t.env.qs {
        occs.push(Occ { off: q.start, kind: NameKind::Question, name: &q.name });
    }
    for s in 0..3 {
        for (i, r) in t.env.secs[s].iter().enumerate() {
            occs.push(Occ { off: r.start, kind: NameKind::Owner, name: &r.name });
            for np in &t.rd_names[s][i] {
                occs.push(Occ { off: np.off, kind: NameKind::Rd(np.comp), name: &np.name });
            }
        }
    }
    let mut label_starts: HashSet<usize> = HashSet::new();
    // full names already written in a compressible position at offset <= 16383
    let mut seen_full: HashSet<&NameM> = HashSet::new();
    let mut pointers = 0u64;
    for o in &occs {
        let kind_name = match o.kind {
            NameKind::Question => "question",
            NameKind::Owner => "owner",
            NameKind::Rd(Comp::Rfc1035) => "rdata-rfc1035",
            NameKind::Rd(Comp::Open) => "rdata-open",
            NameKind::Rd(Comp::Never) => "rdata-must-not-compress",
        };
        ctx.count(&format!("names_{}", kind_name));
        // in-place label starts of this occurrence
        let mut my_starts = Vec::new();
        let mut pos = o.off;
        loop {
            let b = out[pos];
            if b == 0 || b & 0xC0 == 0xC0 {
                break;
            }
            my_starts.push(pos);
            pos += 1 + b as usize;
        }
        if let Some((p0, tgt)) = o.name.ptrs.first().copied() {
            pointers += 1;
            ctx.max("max_pointer_target", tgt as f64);
            if o.kind == NameKind::Rd(Comp::Never) {
                ctx.violation("no-compression-where-forbidden", &format!("compressed-forbidden-name:{}", how),
                    format!("a name inside RDATA that must be written in full contains a pointer at offset {}", p0), case());
                return;
            }
            if tgt >= p0 {
                ctx.violation("pointer-backwards", &format!("pointer-not-backwards:{}", how), format!("pointer at {} targets {}", p0, tgt), case());
                return;
            }
            if tgt > 16383 {
                ctx.violation("pointer-14-bit", "pointer-target-too-large", format!("pointer at {} targets {}", p0, tgt), case());
                return;
            }
            if !label_starts.contains(&tgt) {
                ctx.violation("pointer-to-label-start", &format!("pointer-target-not-a-label-start:{}", how),
                    format!("pointer at {} targets {} which is not the start of a label of an earlier-written name", p0, tgt), case());
                return;
            }
        }
        let compressible = matches!(o.kind, NameKind::Question | NameKind::Owner | NameKind::Rd(Comp::Rfc1035));
        if compressible && !o.name.labels.is_empty() {
            if seen_full.contains(&o.name.labels) {
                let single_pointer = o.name.ptrs.first().map(|(p0, _)| *p0 == o.off).unwrap_or(false);
                if !single_pointer {
                    ctx.violation("repeated-name-is-pointer", &format!("repeated-name-not-compressed:{}:{}", kind_name, how),
                        format!("{} name {} at offset {} repeats an earlier compressible name but is not written as a single pointer",
                            kind_name, name_text(&o.name.labels), o.off), case());
                    return;
                }
                ctx.count("repeated_names_written_as_pointer");
            }
            if o.off <= 16383 {
                seen_full.insert(&o.name.labels);
            }
        }
        for s in my_starts {
            label_starts.insert(s);
        }
    }
    ctx.add("pointers_inspected", pointers);
    if out.len() > 16384 {
        ctx.count("outputs_over_16384");
    }
    ctx.case(pointers > 0, fnv(format!("{:?}{}", p, how).as_bytes()));
}

pub fn check_one(ctx: &mut Ctx, family: &str, idx: u64, p: &PktM) {
    let lib = match monitor::guard(|| bridge::to_lib(p)) {
        Ok(Ok(l)) => l,
        _ => return,
    };
    match build(&lib, true) {
        Built::Ok(b) => check_output(ctx, family, idx, p, &b, "build_bytes_vec_compressed"),
        Built::Err(e) => ctx.violation("build-succeeds", "build-error", format!("build_bytes_vec_compressed failed: {}", e), gen_case(family, idx, p, json!({}))),
        Built::Panic(pn) => ctx.panic_violation("build_bytes_vec_compressed", &pn, gen_case(family, idx, p, json!({}))),
    }
    let kk = 3 + (idx % 37) as usize;
    for k in [2usize, kk] {
        let how = if k == 2 { "write_compressed_to@2" } else { "write_compressed_to@k" };
        let r = monitor::guard(|| {
            let mut c = Cursor::new(vec![0x5Au8; k]);
            c.set_position(k as u64);
            lib.write_compressed_to(&mut c).map(|_| c.into_inner())
        });
        match r {
            Ok(Ok(store)) => check_output(ctx, family, idx, p, &store[k..], how),
            Ok(Err(e)) => ctx.violation("build-succeeds", &format!("build-error:{}", how), format!("{} failed: {:?}", how, e), gen_case(family, idx, p, json!({}))),
            Err(pn) => ctx.panic_violation(how, &pn, gen_case(family, idx, p, json!({}))),
        }
    }
}

pub fn run(ctx: &mut Ctx) {
    if let Some(tape) = ctx.tape_case() {
        // replay of a case found by the coverage-guided `model` target: the tape drives every generator decision
        super::model_case("C07", ctx, &tape);
        return;
    }
    let tier = ctx.tier;
    let n = if ctx.slow_tool { 20 } else { tier.pick(60_000u64, 3_000_000u64) };
    for idx in 0..n {
        if !ctx.take("shared", idx) {
            continue;
        }
        if ctx.stop("shared") {
            break;
        }
        let mut r = ctx.rng("shared", idx);
        let mut cfg = super::c03::share_cfg();
        cfg.share = 90;
        if idx % 2 == 0 {
            cfg.types = vec![2, 5, 12, 15, 6, 14, 17, 18, 21, 23, 3, 4, 7, 8, 9, 33, 36, 35, 46, 47, 64, 65, 45, 1, 16];
        }
        cfg.binary_labels = idx % 3 == 0;
        let mut g = Gen::new(&mut r, cfg);
        let p = g.packet();
        ctx.sample("shared", || pkt_json(&p));
        check_one(ctx, "shared", idx, &p);
    }
    // many distinct names, then repetitions of early, middle and late ones: the table of earlier names has no size at which
    // it may stop learning (all of this stays far below offset 16383)
    for idx in 0..if ctx.slow_tool { 2 } else { tier.pick(400u64, 20_000u64) } {
        if !ctx.take("many-names", idx) {
            continue;
        }
        if ctx.stop("many-names") {
            break;
        }
        let mut r = ctx.rng("many-names", idx);
        let n = *r.pick(&[10usize, 31, 32, 33, 63, 64, 65, 100, 127, 128, 129, 200, 255, 256, 257, 400]);
        let l = |s: &str| s.as_bytes().to_vec();
        let zone: NameM = if idx % 2 == 0 { vec![l("example"), l("com")] } else { vec![l("z")] };
        let mut p = PktM { id: idx as u16, flags: 0x8400, ..Default::default() };
        p.qs.push(QSem { name: zone.clone(), qtype: 255, qclass: 1, unicast: false });
        let host = |i: usize| -> NameM { let mut v = vec![format!("h{}", i).into_bytes()]; v.extend(zone.iter().cloned()); v };
        for i in 0..n {
            p.secs[0].push(RecSem { name: host(i), rtype: 1, class: 1, flush: false, ttl: 60, rd: Rd::Fields(vec![F::Int(i as u64)]) });
        }
        for k in [0usize, n / 2, n.saturating_sub(2), n - 1] {
            // as owner, and as the name inside an RFC 1035 RDATA (PTR)
            p.secs[(k % 2) + 1].push(RecSem { name: host(k), rtype: 16, class: 1, flush: false, ttl: 60, rd: Rd::Fields(vec![F::List(vec![b"x".to_vec()])]) });
            p.secs[2].push(RecSem { name: zone.clone(), rtype: 12, class: 1, flush: false, ttl: 60, rd: Rd::Fields(vec![F::Name(host(k))]) });
        }
        ctx.add("packets_with_many_distinct_names", 1);
        check_one(ctx, "many-names", idx, &p);
    }
    if !ctx.slow_tool {
        let reps = tier.pick(3u64, 40u64);
        for rep in 0..reps {
            for off in 16360..=16400u64 {
                let idx = rep * 100_000 + off;
                if !ctx.take("window", idx) {
                    continue;
                }
                if ctx.stop("window") {
                    break;
                }
                let mut r = ctx.rng("window", idx);
                let p = super::c03::window_packet(&mut r, off as usize);
                ctx.add("window_sweep_packets", 1);
                check_one(ctx, "window", idx, &p);
            }
        }
    }
}
