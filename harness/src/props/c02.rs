//! C02 – build then parse returns the same packet.

use super::common::*;
use crate::ctx::*;
use crate::gen::{Cfg, Gen};
use crate::model::*;
use crate::refdns::*;
use crate::rng::fnv;
use serde_json::json;

pub fn meta() -> Meta {
    Meta {
        rule: "model packets (every typed RDATA variant with boundary-biased field tuples, unknown/NULL/empty RDATA, 5 classes x \
cache-flush, QTYPE/QCLASS specials x unicast bit, binary labels, 0..n entries per section, with/without OPT, named opcodes x \
rcodes) are turned into library packets through public constructors, serialised with build_bytes_vec, parsed, observed through \
public fields + raw-byte hooks, and compared field by field in the model domain. non-trivial = at least one question or record; \
distinct = hash of the model packet",
        assumptions: &[
            "domain limits of DESIGN.md C02 (zero-string TXT, user-pushed OPT records, unsorted NSEC windows are outside)",
            "the bridge (model<->library) uses only public constructors/fields and the read-only hooks",
        ],
        exhaustive: false,
        min_distinct: 1000,
    }
}

pub fn check_one(ctx: &mut Ctx, family: &str, idx: u64, p: &PktM) {
    let nontrivial = !p.qs.is_empty() || p.secs.iter().any(|s| !s.is_empty());
    ctx.case(nontrivial, fnv(format!("{:?}", p).as_bytes()));
    if p.edns.is_some() {
        ctx.count("packets_with_opt");
    }
    let Some((bytes, obs)) = roundtrip(ctx, family, idx, p, false) else {
        return;
    };
    ctx.max("message_bytes", bytes.len() as f64);
    if let Some(d) = diff_pkt(p, &obs) {
        ctx.violation(
            "roundtrip-equal",
            &format!("roundtrip:{}:{}", diff_type(p, &obs), diff_field(p, &obs)),
            format!("build_bytes_vec then parse changed the packet: {}", d),
            gen_case(family, idx, p, json!({"bytes": hex(&bytes)})),
        );
    } else {
        ctx.count("roundtrips_equal");
    }
}

/// `n` minimal entries in section `sec` (0 = questions) plus a few elsewhere
pub fn many_entries(n: usize, sec: usize, salt: u64) -> PktM {
    let mut p = PktM { id: salt as u16 ^ 0x5A5A, flags: 0x8000, ..Default::default() };
    for i in 0..n {
        if sec == 0 {
            p.qs.push(QSem { name: vec![vec![b'q', b'0' + (i % 10) as u8]], qtype: 1, qclass: 1, unicast: i % 7 == 0 });
        } else {
            p.secs[sec - 1].push(RecSem { name: vec![vec![b'r', b'0' + (i % 10) as u8]], rtype: 1, class: 1, flush: i % 5 == 0, ttl: i as u32, rd: Rd::Fields(vec![F::Int(i as u64)]) });
        }
    }
    p.secs[(sec + 1) % 3].push(RecSem { name: vec![b"tail".to_vec()], rtype: 16, class: 1, flush: false, ttl: 1, rd: Rd::Fields(vec![F::List(vec![b"x".to_vec()])]) });
    if salt % 2 == 0 {
        p.edns = Some(EdnsM { udp: 1232, version: 0, opts: vec![] });
    }
    p
}

pub fn run(ctx: &mut Ctx) {
    if let Some(tape) = ctx.tape_case() {
        // replay of a case found by the coverage-guided `model` target: the tape drives every generator decision
        super::model_case("C02", ctx, &tape);
        return;
    }
    let tier = ctx.tier;
    let scale = if ctx.slow_tool { 0 } else { tier.pick(10u64, 1500u64) };
    // values made by every public constructor of the one type that has several (TXT; some of them cache the encoded size)
    if ctx.family_active("txt-ctor") {
        let nt = if ctx.slow_tool { 30 } else { ctx.tier.pick(2_000u64, 100_000u64) };
        for idx in 0..nt {
            if ctx.take("txt-ctor", idx) {
                super::c04::txt_ctor_case(ctx, idx, true);
            }
        }
    }

    // ---- single-record packets: every typed variant x boundary-biased tuples -----------------
    let per_type = if ctx.slow_tool { 3 } else { 400 * scale };
    let mut codes: Vec<u16> = TYPED_CODES.iter().copied().filter(|c| *c != 41).collect();
    codes.push(0); // slot for unknown/NULL/empty
    for (ti, code) in codes.iter().enumerate() {
        for k in 0..per_type {
            let idx = ti as u64 * 1_000_000 + k;
            if !ctx.take("single", idx) {
                continue;
            }
            if ctx.stop("single") {
                break;
            }
            let mut r = ctx.rng("single", idx);
            let mut g = Gen::new(&mut r, Cfg { max_rest: 60, ..Default::default() });
            let mut p = PktM { id: g.r.int(16) as u16, ..Default::default() };
            let rec = if *code == 0 {
                g.cfg.exotic = true;
                loop {
                    let r = g.record();
                    if matches!(r.rd, Rd::Opaque(_)) {
                        break r;
                    }
                }
            } else {
                g.record_of(*code)
            };
            let sec = g.r.usize(0, 2);
            ctx.add(&format!("tuples_{}", if *code == 0 { "opaque" } else { type_name(*code) }), 1);
            p.secs[sec].push(rec);
            ctx.sample("single", || pkt_json(&p));
            check_one(ctx, "single", idx, &p);
        }
    }

    // ---- multi-section packets ----------------------------------------------------------------
    let n = if ctx.slow_tool { 20 } else { 6000 * scale };
    for idx in 0..n {
        if !ctx.take("multi", idx) {
            continue;
        }
        if ctx.stop("multi") {
            break;
        }
        let mut r = ctx.rng("multi", idx);
        let me = r.usize(0, 8);
        let mut g = Gen::new(&mut r, Cfg { max_entries: me, ..Default::default() });
        let p = g.packet();
        ctx.sample("multi", || pkt_json(&p));
        check_one(ctx, "multi", idx, &p);
    }

    // ---- header: every named opcode x rcode x flag subset (with OPT when rcode needs it) ----------
    if ctx.family_active("header") {
        let mut idx = 0u64;
        for &op in &NAMED_OPCODES {
            for rc in NAMED_RCODES_LOW.iter().copied().chain([16u16]) {
                for fl in 0..128u16 {
                    idx += 1;
                    if !ctx.take("header", idx) {
                        continue;
                    }
                    let mut flags = 0u16;
                    for (bit, (_, mask)) in crate::bridge::ALL_FLAGS.iter().enumerate() {
                        if fl >> bit & 1 == 1 {
                            flags |= mask;
                        }
                    }
                    let mut p = PktM { id: (idx as u16).wrapping_mul(257), flags, opcode: op, rcode: rc, ..Default::default() };
                    if rc > 15 || fl % 3 == 0 {
                        p.edns = Some(EdnsM { udp: 1232, version: (fl % 2) as u8 * 255, opts: vec![] });
                    }
                    if fl % 2 == 1 {
                        p.qs.push(QSem { name: vec![b"a".to_vec()], qtype: 1, qclass: 1, unicast: false });
                    }
                    ctx.add("header_combinations", 1);
                    check_one(ctx, "header", idx, &p);
                }
            }
        }
    }

    // ---- specials: QTYPE/QCLASS specials x unicast; classes x cache-flush ----------------------------
    if ctx.family_active("special") {
        let mut idx = 0u64;
        let qtypes: Vec<u16> = TYPED_CODES.iter().copied().chain([10u16, 251, 252, 253, 254, 255]).collect();
        for &qt in &qtypes {
            for &qc in &[1u16, 2, 3, 4, 254, 255] {
                for uni in [false, true] {
                    idx += 1;
                    if !ctx.take("special", idx) {
                        continue;
                    }
                    let mut p = PktM { id: idx as u16, ..Default::default() };
                    p.qs.push(QSem { name: vec![b"q".to_vec(), vec![0xFF, 0x00, b'.']], qtype: qt, qclass: qc, unicast: uni });
                    for &cl in &CLASSES {
                        for fl in [false, true] {
                            p.secs[(idx % 3) as usize].push(RecSem {
                                name: vec![b"r".to_vec()],
                                rtype: 1,
                                class: cl,
                                flush: fl,
                                ttl: if fl { u32::MAX } else { 0x8000_0000 },
                                rd: Rd::Fields(vec![F::Int(0xFFFF_FF00)]),
                            });
                        }
                    }
                    ctx.add("qtype_qclass_unicast_combinations", 1);
                    check_one(ctx, "special", idx, &p);
                }
            }
        }
    }

    // ---- many entries: section counts above 255 (both count bytes in use) ------------------------------------------
    if ctx.family_active("many") && !ctx.slow_tool {
        for (idx, n) in [255usize, 256, 257, 300, 511, 512, 700, 1000, 2000].iter().enumerate() {
            for sec in 0..4usize {
                let idx = (idx * 4 + sec) as u64;
                if !ctx.take("many", idx) {
                    continue;
                }
                let p = many_entries(*n, sec, idx);
                ctx.add("packets_with_more_than_255_entries_in_a_section", 1);
                check_one(ctx, "many", idx, &p);
            }
        }
    }

    // ---- big packets (thorough): up to 65535 bytes -----------------------------------------------------
    if tier == Tier::Thorough && !ctx.slow_tool {
        for idx in 0..4000u64 {
            if !ctx.take("big", idx) {
                continue;
            }
            if ctx.stop("big") {
                break;
            }
            let mut r = ctx.rng("big", idx);
            let target = r.usize(20_000, 65_000);
            let mut g = Gen::new(&mut r, Cfg { max_rest: 2000, ..Default::default() });
            let mut p = PktM { id: idx as u16, ..Default::default() };
            let mut size = 12usize;
            loop {
                let rec = g.record();
                let add = name_wire_len(&rec.name) + 10 + encode_rdata_plain(rec.rtype, &rec.rd).len();
                if size + add > target {
                    break;
                }
                size += add;
                let s = g.r.usize(0, 2);
                p.secs[s].push(rec);
            }
            ctx.add("big_packets", 1);
            check_one(ctx, "big", idx, &p);
        }
    }
}
