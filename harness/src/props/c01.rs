//! C01 – parsing untrusted bytes never panics, hangs or over-allocates.

use crate::ctx::*;
use crate::gen::{digits, Cfg, Gen};
use crate::model::*;
use crate::monitor;
use crate::refdns::*;
use crate::rng::Rng;
use serde_json::json;
use simple_dns::{header_buffer, Packet, PacketFlag};

pub fn meta() -> Meta {
    Meta {
        rule: "inputs: (1) every prefix and every -1/+1/0/max corruption of every length-like field of reference-encoded \
messages for each of the 40 typed record types plus unknown/empty RDATA; (2) short header buffers; (3) bounded-exhaustive \
tails and RDATA bodies over a reduced alphabet; (4) enumerated pointer graphs; (5) amplification inputs (maximal counts, pointer fans and chains, and datagram-sized / maximal messages filled with copies of one small record of each type); (6) seeded havoc. \
Monitors: panic recorder, per-case thread-CPU meter (bound 250ms+40us/B), per-case peak-heap meter (bound 64KiB+1KiB/B), \
CPU watchdog. non-trivial = input of >= 12 bytes whose header announces at least one entry; distinct = hash of the bytes",
        assumptions: &[
            "time/heap bounds are thresholds >= 2x above the honest worst case constructed in DESIGN.md C01",
            "reference encoder produces the valid seeds; its own correctness matters only for reach, not for verdicts",
        ],
        exhaustive: false,
        min_distinct: 1000,
    }
}

fn err_kind(e: &simple_dns::SimpleDnsError) -> String {
    let s = format!("{:?}", e);
    s.split(|c| c == '(' || c == ' ').next().unwrap_or("?").to_string()
}

/// The monitored call. Returns true when the input was accepted.
pub fn check_parse(ctx: &mut Ctx, family: &str, idx: u64, b: &[u8]) -> bool {
    let tag = format!("{}:{}", family, idx);
    monitor::wd_begin(&tag, Some(b));
    monitor::heap_reset();
    let t0 = monitor::thread_cpu_ns();
    let r = monitor::guard(|| match Packet::parse(b) {
        Ok(p) => {
            let n = p.questions.len()
                + p.answers.len()
                + p.name_servers.len()
                + p.additional_records.len();
            drop(p);
            Ok(n)
        }
        Err(e) => Err(err_kind(&e)),
    });
    let cpu = monitor::thread_cpu_ns().saturating_sub(t0);
    let peak = monitor::heap_peak();
    monitor::wd_end();

    let nontrivial = b.len() >= 12 && b[4..12].iter().any(|x| *x != 0);
    ctx.case_bytes(nontrivial, b);
    let mut accepted = false;
    match r {
        Err(p) => ctx.panic_violation("Packet::parse", &p, case_bytes_json(family, idx, b)),
        Ok(Ok(_)) => {
            accepted = true;
            ctx.count("parse_ok")
        }
        Ok(Err(k)) => ctx.count(&format!("parse_err_{}", k)),
    }
    if !ctx.slow_tool {
        let cpu_bound = 250_000_000u64 + 40_000 * b.len() as u64;
        let heap_bound = 64 * 1024 + 1024 * b.len();
        ctx.max("cpu_us_per_case", cpu as f64 / 1e3);
        ctx.max("heap_bytes_per_input_byte", peak as f64 / (b.len().max(1)) as f64);
        ctx.max("heap_peak_bytes", peak as f64);
        if cpu > cpu_bound {
            ctx.violation(
                "time-bound",
                &format!("cpu-bound:{}", family),
                format!("parse of {} bytes used {} us CPU (bound {} us)", b.len(), cpu / 1000, cpu_bound / 1000),
                case_bytes_json(family, idx, b),
            );
        }
        if peak > heap_bound {
            ctx.violation(
                "heap-bound",
                &format!("heap-bound:{}", if b.len() <= 12 { "header-only" } else { family }),
                format!("parse of {} bytes reached {} bytes of live heap (bound {})", b.len(), peak, heap_bound),
                case_bytes_json(family, idx, b),
            );
        }
    }
    check_peeks(ctx, family, idx, b);
    accepted
}

pub fn check_peeks(ctx: &mut Ctx, family: &str, idx: u64, b: &[u8]) {
    let peeks: [(&str, fn(&[u8]) -> bool); 8] = [
        ("header_buffer::id", |b| header_buffer::id(b).is_ok()),
        ("header_buffer::questions", |b| header_buffer::questions(b).is_ok()),
        ("header_buffer::answers", |b| header_buffer::answers(b).is_ok()),
        ("header_buffer::name_servers", |b| header_buffer::name_servers(b).is_ok()),
        ("header_buffer::additional_records", |b| header_buffer::additional_records(b).is_ok()),
        ("header_buffer::has_flags", |b| header_buffer::has_flags(b, PacketFlag::RESPONSE).is_ok()),
        ("header_buffer::rcode", |b| header_buffer::rcode(b).is_ok()),
        ("header_buffer::opcode", |b| header_buffer::opcode(b).is_ok()),
    ];
    for (name, f) in peeks {
        match monitor::guard(|| f(b)) {
            Ok(ok) => {
                if b.len() < 12 {
                    ctx.count(if ok { "peek_short_ok" } else { "peek_short_err" })
                }
            }
            Err(p) => {
                let loc = monitor::short_loc(&p.location);
                ctx.violation(
                    "never-panics",
                    &format!("panic@{}", loc),
                    format!("{} panicked on a {}-byte buffer at {}: {}", name, b.len(), loc, p.message),
                    case_bytes_json(family, idx, b),
                );
            }
        }
    }
}

/// Reference-encoded corpus message `ci`: which type it is centred on, and its encoding.
pub fn corpus_msg(seed: u64, ci: u64) -> (u16, Encoded) {
    // 42 slots: the 40 typed codes, unknown type, empty rdata
    let slot = (ci % 42) as usize;
    let mut r = Rng::for_case(seed, "c01-corpus", ci);
    let arbitrary = r.chance(1, 2);
    let mut g = Gen::new(
        &mut r,
        Cfg {
            max_entries: 2,
            max_rest: 24,
            edns: 0,
            share: 60,
            ..Default::default()
        },
    );
    let mut p = PktM {
        id: g.r.int(16) as u16,
        flags: (g.r.next() as u16) & FLAG_MASK,
        ..Default::default()
    };
    if g.r.chance(1, 2) {
        let q = g.question();
        p.qs.push(q);
    }
    let code = if slot < 40 { TYPED_CODES[slot] } else { 0 };
    let main = if slot < 40 && code != 41 {
        g.record_of(code)
    } else if slot == 40 {
        let c = g.unknown_code();
        RecSem {
            name: g.name(),
            rtype: c,
            class: 1,
            flush: false,
            ttl: 1,
            rd: Rd::Opaque(g.blob(20)),
        }
    } else {
        let t = g.rtype();
        RecSem {
            name: g.name(),
            rtype: t,
            class: 1,
            flush: false,
            ttl: 1,
            rd: Rd::Opaque(vec![]),
        }
    };
    let sec = g.r.usize(0, 2);
    if code == 41 {
        p.edns = Some(g.edns());
    } else {
        p.secs[sec].push(main);
    }
    // 0-2 further records around it
    let extra = g.r.usize(0, 2);
    for _ in 0..extra {
        let s = g.r.usize(0, 2);
        let rec = g.record();
        if g.r.bool() {
            p.secs[s].push(rec)
        } else {
            p.secs[s].insert(0, rec)
        }
    }
    let oi = g.r.usize(0, 3);
    let m = p.to_wire(oi);
    let plan = if arbitrary {
        Plan::Arbitrary(Rng::for_case(seed, "c01-corpus-plan", ci))
    } else {
        Plan::None
    };
    (code, encode(&m, plan))
}

fn put(buf: &mut [u8], off: usize, width: usize, v: u64) {
    let be = v.to_be_bytes();
    buf[off..off + width].copy_from_slice(&be[8 - width..]);
}
fn get(buf: &[u8], off: usize, width: usize) -> u64 {
    let mut v = 0u64;
    for i in 0..width {
        v = (v << 8) | buf[off + i] as u64;
    }
    v
}

pub fn run(ctx: &mut Ctx) {
    if let Some(c) = ctx.replay_case.clone() {
        if let Some(h) = c["bytes"].as_str() {
            if let Some(b) = unhex(h) {
                let fam = c["family"].as_str().unwrap_or("replay").to_string();
                check_parse(ctx, &fam, c["idx"].as_u64().unwrap_or(0), &b);
                return;
            }
        }
    }
    let tier = ctx.tier;
    let seed = ctx.seed;

    // ---- (1) cut / perturb enumeration ------------------------------------------------------
    let per_type = if ctx.slow_tool { 1 } else { tier.pick(60u64, 500u64) };
    for ci in 0..42 * per_type {
        if !ctx.take("cut", ci) {
            continue;
        }
        let (code, enc) = corpus_msg(seed, ci);
        let b = &enc.bytes;
        let tname = if ci % 42 < 40 { type_name(code) } else if ci % 42 == 40 { "unknown" } else { "empty" };
        ctx.sample("cut", || json!({"type": tname, "valid_message": hex(b), "length_like_fields": enc.fields.len()}));
        if check_parse(ctx, "cut", ci, b) {
            ctx.count("corpus_valid_accepted");
        } else {
            ctx.count("corpus_valid_rejected");
        }
        // under Miri/valgrind every 5th truncation point (the native run covers all of them)
        let step = if ctx.slow_tool { 5 } else { 1 };
        for cut in (0..b.len()).step_by(step) {
            check_parse(ctx, "cut", ci, &b[..cut]);
            ctx.add(&format!("cut_cases_{}", tname), 1);
        }
        let mut m = b.clone();
        for f in &enc.fields {
            let orig = get(b, f.off, f.width);
            let max = if f.width == 1 { 0xFF } else { 0xFFFF };
            for (vi, v) in [orig.wrapping_sub(1) & max, (orig + 1) & max, 0, max, 0xC0 & max, 0x3F].into_iter().enumerate() {
                if v == orig || (ctx.slow_tool && vi >= 2) {
                    continue;
                }
                put(&mut m, f.off, f.width, v);
                check_parse(ctx, "cut", ci, &m);
                ctx.add(&format!("perturb_cases_{:?}", f.kind), 1);
            }
            put(&mut m, f.off, f.width, orig);
        }
    }

    // ---- (2) header-peek sweep --------------------------------------------------------------
    if ctx.family_active("peek") {
        let alpha = [0x00u8, 0x01, 0x80, 0xFF];
        let mut idx = 0u64;
        for len in 0..=12usize {
            // all fills for short lengths, patterned for the rest
            let total = if ctx.slow_tool { if len <= 3 { 4u64.pow(len as u32) } else { 24 } } else if len <= 6 { 4u64.pow(len as u32) } else { 4096 };
            for k in 0..total {
                idx += 1;
                if !ctx.take("peek", idx) {
                    continue;
                }
                let d = digits(k, 4, len.max(6));
                let b: Vec<u8> = (0..len).map(|i| alpha[d[i % d.len()]]).collect();
                check_parse(ctx, "peek", idx, &b);
            }
        }
        ctx.sample("peek", || json!("all buffers of length 0..=6 over {00,01,80,ff}; 4096 patterned buffers for each length 7..=12"));
    }

    // ---- (3) bounded-exhaustive tails and RDATA bodies --------------------------------------
    let alpha: [u8; 10] = [0x00, 0x01, 0x02, 0x3F, 0x40, 0xC0, 0x0C, 0x29, 0xFF, b'a'];
    ctx.set_enumerated(true);
    if ctx.family_active("tail") {
        let l_max = if ctx.slow_tool { 2 } else { tier.pick(5usize, 7usize) };
        let mut idx = 0u64;
        for sec in 0..4usize {
            for l in 0..=l_max {
                let total = 10u64.pow(l as u32);
                for k in 0..total {
                    idx += 1;
                    if !ctx.take("tail", idx) {
                        continue;
                    }
                    if ctx.stop("tail") {
                        break;
                    }
                    let mut b = vec![0u8; 12];
                    b[5 + 2 * sec] = 1;
                    for d in digits(k, 10, l) {
                        b.push(alpha[d]);
                    }
                    check_parse(ctx, "tail", idx, &b);
                }
            }
        }
        ctx.sample("tail", || json!({"alphabet": hex(&alpha), "max_len": l_max, "sections": 4}));
    }
    if ctx.family_active("rdbody") {
        let l_max = if ctx.slow_tool { 1 } else { tier.pick(4usize, 6usize) };
        let mut idx = 0u64;
        let mut codes: Vec<u16> = TYPED_CODES.to_vec();
        codes.push(10);
        codes.push(999);
        for code in codes {
            for l in 0..=l_max {
                let total = 10u64.pow(l as u32);
                for k in 0..total {
                    idx += 1;
                    if !ctx.take("rdbody", idx) {
                        continue;
                    }
                    if ctx.stop("rdbody") {
                        break;
                    }
                    // header, ANCOUNT=1 (ARCOUNT for OPT), root owner, type, class IN, ttl 0, RDLENGTH l, body
                    let mut b = vec![0u8; 12];
                    if code == 41 {
                        b[11] = 1
                    } else {
                        b[7] = 1
                    }
                    b.push(0);
                    b.extend_from_slice(&code.to_be_bytes());
                    b.extend_from_slice(&[0, 1, 0, 0, 0, 0]);
                    b.extend_from_slice(&(l as u16).to_be_bytes());
                    for d in digits(k, 10, l) {
                        b.push(alpha[d]);
                    }
                    check_parse(ctx, "rdbody", idx, &b);
                    ctx.add("rdbody_cases", 1);
                }
            }
        }
        ctx.sample("rdbody", || json!({"alphabet": hex(&alpha), "max_rdlength": l_max, "types": 42}));
    }

    ctx.set_enumerated(false); // pointer graphs can coincide (different target indices, same offset): hashed
    // ---- (4) pointer graphs ------------------------------------------------------------------
    if ctx.family_active("ptrgraph") && !ctx.slow_tool {
        // body = three pieces, each: optional label, then a pointer to target t
        let placements = 7u64; // question, owner, NS, MX, SOA(mname), SRV, RRSIG(signer)
        let ntargets = 15u64;
        let total = placements * ntargets.pow(3) * 8;
        // the id field of the header may itself hold pointer bytes (self pointer, pointer to the counts, to offset 12)
        let ids: [[u8; 2]; 4] = [[0, 0], [0xC0, 0x00], [0xC0, 0x04], [0xC0, 0x0C]];
        for idx in 0..total * 4 {
            if !ctx.take("ptrgraph", idx) {
                continue;
            }
            if ctx.stop("ptrgraph") {
                break;
            }
            let mut k = idx;
            let idv = ids[(k % 4) as usize];
            k /= 4;
            let place = (k % placements) as usize;
            k /= placements;
            let labels = (k % 8) as usize;
            k /= 8;
            let t: Vec<usize> = digits(k, ntargets, 3);
            let mut b = pointer_graph(place, labels, &t);
            b[0] = idv[0];
            b[1] = idv[1];
            check_parse(ctx, "ptrgraph", idx, &b);
            ctx.add("pointer_graph_cases", 1);
        }
        // pointer pieces that live BEFORE the name being parsed (inside the RDATA of an earlier record): cycles and
        // chains among them are only reachable through a later name that points into that region
        let mut idx = 0u64;
        for final_target in 0..3usize {
            for labels in 0..8usize {
                for tk in 0..6u64.pow(3) {
                    idx += 1;
                    if !ctx.take("ptrpre", idx) {
                        continue;
                    }
                    let t = digits(tk, 6, 3);
                    let b = pre_cycle_graph(final_target, labels, &t);
                    check_parse(ctx, "ptrpre", idx, &b);
                    ctx.add("pointer_graph_cases_in_earlier_rdata", 1);
                }
            }
        }
        ctx.sample("ptrgraph", || json!({"example": hex(&pointer_graph(2, 5, &[3, 7, 12]))}));
    }

    ctx.set_enumerated(false);
    // ---- (5) amplification -------------------------------------------------------------------
    if ctx.family_active("amplify") && !ctx.slow_tool {
        let cases = amplification_inputs();
        for (i, b) in cases.iter().enumerate() {
            if !ctx.take("amplify", i as u64) {
                continue;
            }
            check_parse(ctx, "amplify", i as u64, b);
            ctx.add("amplification_cases", 1);
        }
        ctx.sample("amplify", || json!({"count": cases.len(), "sizes": cases.iter().map(|c| c.len()).collect::<Vec<_>>()}));
    }

    // ---- (5b) several OPT pseudo-records in one message, at every subset of positions ----------
    if ctx.family_active("multi-opt") {
        let reps = if ctx.slow_tool { 1 } else { tier.pick(4u64, 100u64) };
        let mut idx = 0u64;
        for n in 2..=6usize {
            for mask in 0u32..(1 << n) {
                if mask.count_ones() < 2 {
                    continue;
                }
                for rep in 0..reps {
                    idx += 1;
                    if !ctx.take("multi-opt", idx) {
                        continue;
                    }
                    let b = super::c05::multi_opt_msg(ctx, idx, n, mask, rep);
                    ctx.add("multi_opt_cases", 1);
                    check_parse(ctx, "multi-opt", idx, &b);
                }
            }
        }
    }

    // ---- (6) havoc ----------------------------------------------------------------------------
    if ctx.family_active("havoc") {
        let n = if ctx.slow_tool { 160 } else { tier.pick(3_000_000u64, 250_000_000u64) };
        let samples = sample_file_messages();
        for idx in 0..n {
            if !ctx.take("havoc", idx) {
                continue;
            }
            if ctx.stop("havoc") {
                ctx.notes.push(format!("havoc stopped at {} of {} (time budget)", idx, n));
                break;
            }
            let mut r = ctx.rng("havoc", idx);
            let mut b = if !samples.is_empty() && r.chance(1, 6) {
                r.pick(&samples).clone()
            } else {
                corpus_msg(seed, r.below(42 * 40)).1.bytes
            };
            havoc(&mut r, &mut b, seed);
            check_parse(ctx, "havoc", idx, &b);
        }
        ctx.sample("havoc", || {
            let mut r = Rng::for_case(seed, "havoc", 0);
            let mut b = corpus_msg(seed, r.below(42 * 40)).1.bytes;
            havoc(&mut r, &mut b, seed);
            json!({"mutated": hex(&b)})
        });
    }
}

pub fn havoc(r: &mut Rng, b: &mut Vec<u8>, seed: u64) {
    let n = r.usize(1, 4);
    for _ in 0..n {
        if b.is_empty() {
            b.push(r.u8());
            continue;
        }
        match r.below(9) {
            0 => {
                let i = r.usize(0, b.len() - 1);
                b[i] ^= 1 << r.below(8);
            }
            1 => {
                let i = r.usize(0, b.len() - 1);
                b[i] = *r.pick(&[0u8, 1, 0x3F, 0x40, 0x7F, 0x80, 0xBF, 0xC0, 0xFF, 12, 41]);
            }
            2 => {
                let i = r.usize(0, b.len() - 1);
                b[i] = b[i].wrapping_add(if r.bool() { 1 } else { 0xFF });
            }
            3 => {
                let i = r.usize(0, b.len());
                b.truncate(i);
            }
            4 => {
                let i = r.usize(0, b.len());
                let n = r.usize(1, 8);
                let ins = r.bytes(n);
                b.splice(i..i, ins);
            }
            5 => {
                let i = r.usize(0, b.len() - 1);
                let n = r.usize(1, 8).min(b.len() - i);
                b.drain(i..i + n);
            }
            6 => {
                // splice with another corpus message
                let other = corpus_msg(seed, r.below(42 * 40)).1.bytes;
                let i = r.usize(0, b.len());
                let j = r.usize(0, other.len());
                b.truncate(i);
                b.extend_from_slice(&other[j..]);
            }
            7 => {
                // overwrite two bytes with a pointer somewhere
                if b.len() >= 2 {
                    let i = r.usize(0, b.len() - 2);
                    let t = r.usize(0, b.len() + 2) as u16;
                    b[i] = 0xC0 | (t >> 8) as u8;
                    b[i + 1] = t as u8;
                }
            }
            _ => {
                // section count edit
                if b.len() >= 12 {
                    let s = 4 + 2 * r.usize(0, 3);
                    let v = *r.pick(&[0u16, 1, 2, 255, 256, 65535]);
                    b[s..s + 2].copy_from_slice(&v.to_be_bytes());
                }
            }
        }
    }
}

/// The repository's dnspython-produced sample files, wrapped into messages (header + RRs as answers).
pub fn sample_file_messages() -> Vec<Vec<u8>> {
    let mut out = Vec::new();
    if cfg!(miri) {
        return out; // no file system under Miri's isolation
    }
    let repo = std::env::var("VERIF_REPO").unwrap_or_else(|_| "/repo".into());
    if let Ok(rd) = std::fs::read_dir(format!("{}/simple-dns/samples/zonefile", repo)) {
        let mut paths: Vec<_> = rd.flatten().map(|e| e.path()).collect();
        paths.sort();
        for p in paths {
            if let Ok(data) = std::fs::read(&p) {
                // count RRs with the reference walker
                let mut pos = 0;
                let mut n = 0u16;
                while pos < data.len() {
                    let Ok(nm) = decode_name(&data, pos) else { break };
                    let h = nm.next;
                    if h + 10 > data.len() {
                        break;
                    }
                    let rdlen = u16::from_be_bytes([data[h + 8], data[h + 9]]) as usize;
                    pos = h + 10 + rdlen;
                    n += 1;
                }
                let mut m = vec![0u8; 12];
                m[6..8].copy_from_slice(&n.to_be_bytes());
                m.extend_from_slice(&data);
                out.push(m);
            }
        }
    }
    out
}

/// first answer: a NULL-type record whose RDATA holds three pointer pieces; second answer: owner = pointer to one of them
fn pre_cycle_graph(final_target: usize, labels: usize, t: &[usize]) -> Vec<u8> {
    let mut b = vec![0u8; 12];
    b[7] = 2;
    // record 1: root owner, type 10, class IN, ttl 0, rdlength patched
    b.extend_from_slice(&[0, 0, 10, 0, 1, 0, 0, 0, 0, 0, 0]);
    let rd_start = b.len();
    let piece_len = |i: usize| if labels >> i & 1 == 1 { 4 } else { 2 };
    let mut starts = Vec::new();
    let mut o = rd_start;
    for i in 0..3 {
        starts.push(o);
        o += piece_len(i);
    }
    for i in 0..3 {
        let target = match t[i] {
            0 => starts[0],
            1 => starts[1],
            2 => starts[2],
            3 => 0,
            4 => 12,
            _ => starts[i] + if labels >> i & 1 == 1 { 2 } else { 0 }, // the pointer itself
        };
        if labels >> i & 1 == 1 {
            b.extend_from_slice(&[1, b'a']);
        }
        b.push(0xC0 | ((target >> 8) as u8 & 0x3F));
        b.push(target as u8);
    }
    let rdlen = (b.len() - rd_start) as u16;
    b[rd_start - 2..rd_start].copy_from_slice(&rdlen.to_be_bytes());
    // record 2: owner = pointer into the region above
    let ft = starts[final_target];
    b.push(0xC0 | (ft >> 8) as u8);
    b.push(ft as u8);
    b.extend_from_slice(&[0, 1, 0, 1, 0, 0, 0, 0, 0, 4, 1, 2, 3, 4]);
    b
}

fn pointer_graph(place: usize, labels: usize, t: &[usize]) -> Vec<u8> {
    // layout: header(12) then a "name area" of three pieces starting at offset 12 (or inside RDATA)
    let mut b = vec![0u8; 12];
    let mut pre: Vec<u8> = Vec::new();
    let mut post: Vec<u8> = Vec::new();
    match place {
        0 => {
            b[5] = 1;
            post.extend_from_slice(&[0, 1, 0, 1]);
        }
        1 => {
            b[7] = 1;
            post.extend_from_slice(&[0, 1, 0, 1, 0, 0, 0, 0, 0, 0]);
        }
        _ => {
            b[7] = 1;
            let (ty, fixed): (u16, usize) = match place {
                2 => (2, 0),
                3 => (15, 2),
                4 => (6, 0),
                5 => (33, 6),
                _ => (46, 18),
            };
            pre.push(0);
            pre.extend_from_slice(&ty.to_be_bytes());
            pre.extend_from_slice(&[0, 1, 0, 0, 0, 0]);
            pre.extend_from_slice(&[0, 0]); // RDLENGTH patched below
            pre.extend(std::iter::repeat(7u8).take(fixed));
            if place == 4 {
                post.extend(std::iter::repeat(0u8).take(21)); // rname root + 20 bytes
            }
        }
    }
    let base = 12 + pre.len();
    // three pieces
    let mut area: Vec<u8> = Vec::new();
    let piece_len = |i: usize| if labels >> i & 1 == 1 { 4 } else { 2 };
    let total: usize = (0..3).map(piece_len).sum();
    let end = base + total + post.len();
    let mut starts = vec![];
    let mut o = base;
    for i in 0..3 {
        starts.push(o);
        o += piece_len(i);
    }
    for i in 0..3 {
        let own = starts[i] + if labels >> i & 1 == 1 { 2 } else { 0 };
        let target = match t[i] {
            0 => 0,
            1 => 2,
            2 => 11,
            3 => 12,
            4 => base,
            5 => starts[0],
            6 => starts[1],
            7 => starts[2],
            8 => own,
            9 => own + 1,
            10 => own + 2,
            11 => end.saturating_sub(2),
            12 => end.saturating_sub(1),
            13 => end,
            _ => 0x3FFF,
        };
        if labels >> i & 1 == 1 {
            area.extend_from_slice(&[1, b'a']);
        }
        area.push(0xC0 | ((target >> 8) as u8 & 0x3F));
        area.push(target as u8);
    }
    b.extend_from_slice(&pre);
    b.extend_from_slice(&area);
    b.extend_from_slice(&post);
    if place >= 2 {
        let rdlen = (b.len() - (12 + 11)) as u16;
        b[12 + 9..12 + 11].copy_from_slice(&rdlen.to_be_bytes());
    }
    b
}

fn amplification_inputs() -> Vec<Vec<u8>> {
    let mut v: Vec<Vec<u8>> = Vec::new();
    // (a) maximal counts, no body / short bodies
    for sec in 0..4 {
        let mut b = vec![0u8; 12];
        b[4 + 2 * sec] = 0xFF;
        b[5 + 2 * sec] = 0xFF;
        v.push(b.clone());
        b.extend_from_slice(&[0, 0, 1, 0, 1]);
        v.push(b);
    }
    let mut b = vec![0u8; 12];
    for x in b[4..12].iter_mut() {
        *x = 0xFF
    }
    v.push(b);
    // (b) pointer fan: one maximal name then questions that are pointers to it
    for name_labels in [127usize, 1, 4] {
        let mut b = vec![0u8; 12];
        let start = b.len();
        if name_labels == 127 {
            for _ in 0..127 {
                b.extend_from_slice(&[1, b'x']);
            }
        } else {
            for _ in 0..name_labels {
                b.push(63 / 1);
                b.extend(std::iter::repeat(b'y').take(63));
            }
        }
        b.push(0);
        b.extend_from_slice(&[0, 1, 0, 1]);
        let mut n = 1u16;
        while b.len() + 6 <= 65535 && n < 65535 {
            b.push(0xC0 | (start >> 8) as u8);
            b.push(start as u8);
            b.extend_from_slice(&[0, 1, 0, 1]);
            n += 1;
        }
        b[4..6].copy_from_slice(&n.to_be_bytes());
        v.push(b);
    }
    // (c) deepest chains: pointer -> pointer -> ... within the first 16 KiB, then many names into the chain end
    {
        let mut b = vec![0u8; 12];
        // first question: root name at 12
        b.extend_from_slice(&[0, 0, 1, 0, 1]); // name(00) type class
        let mut n = 1u16;
        let mut prev = 12usize;
        // questions whose name is a pointer to the previous question's name
        while b.len() + 6 <= 16380 {
            let here = b.len();
            b.push(0xC0 | (prev >> 8) as u8);
            b.push(prev as u8);
            b.extend_from_slice(&[0, 1, 0, 1]);
            prev = here;
            n += 1;
        }
        while b.len() + 6 <= 65535 && n < 65535 {
            b.push(0xC0 | (prev >> 8) as u8);
            b.push(prev as u8);
            b.extend_from_slice(&[0, 1, 0, 1]);
            n += 1;
        }
        b[4..6].copy_from_slice(&n.to_be_bytes());
        v.push(b);
    }
    // (d) 255-byte names repeated as questions
    {
        let mut b = vec![0u8; 12];
        let mut n = 0u16;
        while b.len() + 259 <= 65535 {
            for _ in 0..3 {
                b.push(63);
                b.extend(std::iter::repeat(b'q').take(63));
            }
            b.push(61);
            b.extend(std::iter::repeat(b'q').take(61));
            b.push(0);
            b.extend_from_slice(&[0, 1, 0, 1]);
            n += 1;
        }
        b[4..6].copy_from_slice(&n.to_be_bytes());
        v.push(b);
    }
    // (e) TXT with many empty strings, OPT with many empty options, NSEC with many windows
    {
        for (ty, unit) in [(16u16, vec![0u8]), (41, vec![0, 0, 0, 0]), (47, vec![0u8])] {
            let mut b = vec![0u8; 12];
            if ty == 41 {
                b[11] = 1
            } else {
                b[7] = 1
            }
            b.push(0);
            b.extend_from_slice(&ty.to_be_bytes());
            b.extend_from_slice(&[0, 1, 0, 0, 0, 0]);
            let mut rd: Vec<u8> = Vec::new();
            if ty == 47 {
                rd.push(0);
                let mut w = 0u16;
                while w < 256 {
                    rd.extend_from_slice(&[w as u8, 1, 0xFF]);
                    w += 1;
                }
            } else {
                while rd.len() + unit.len() <= 65000 {
                    rd.extend_from_slice(&unit);
                }
            }
            b.extend_from_slice(&(rd.len() as u16).to_be_bytes());
            b.extend_from_slice(&rd);
            v.push(b);
        }
    }
    // (f) a datagram-sized and a maximal message filled with copies of one small valid record, for every typed variant:
    // whatever a per-type parser reserves or scans per record is multiplied by the number of records
    {
        let mut r = Rng::new(0xA3F1);
        for code in TYPED_CODES.iter().copied().filter(|c| *c != 41) {
            let mut g = Gen::new(&mut r, Cfg { share: 0, max_rest: 4, exotic: false, ..Default::default() });
            let mut rec = g.record_of(code).to_wire();
            rec.name = vec![];
            let mut m = MsgM { id: 1, flags: 0x8400, ..Default::default() };
            m.secs[0].push(rec);
            let one = encode(&m, Plan::None).bytes;
            let unit = &one[12..];
            if unit.is_empty() || unit.len() > 400 {
                continue;
            }
            for limit in [9000usize, 65535] {
                let k = ((limit - 12) / unit.len()).min(65535);
                let mut b = vec![0u8; 12];
                b[2] = 0x84;
                b[6..8].copy_from_slice(&(k as u16).to_be_bytes());
                for _ in 0..k {
                    b.extend_from_slice(unit);
                }
                v.push(b);
            }
        }
    }
    v
}
