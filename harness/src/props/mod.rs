//! Property registry.
use crate::ctx::{Ctx, Meta};

pub mod c01;
pub mod c02;
pub mod c03;
pub mod c04;
pub mod c05;
pub mod c06;
pub mod c07;
pub mod c08;
pub mod c09;
pub mod c10;
pub mod c11;
pub mod c12;
pub mod c13;
pub mod c14;
pub mod c15;
pub mod c16;
pub mod c17;
pub mod c18;
pub mod c19;
pub mod c20;
pub mod common;

pub struct Prop {
    pub id: &'static str,
    pub run: fn(&mut Ctx),
    pub meta: fn() -> Meta,
    /// run as one process (real sockets / timing workloads that must not be duplicated)
    pub single_process: bool,
    pub budget_quick_s: u64,
    pub budget_thorough_s: u64,
    pub handles_foreign_panics: bool,
}

/// tool sub-runs of the thorough tier: (property, Miri?, fuzz target, valgrind?)
/// One case of a model-driven check with every generator decision read from `tape` (see rng::set_tape). Used by the
/// coverage-guided `model` fuzz target and by the replay of what it finds.
pub fn model_case(sel: &str, ctx: &mut crate::ctx::Ctx, tape: &[u8]) {
    crate::rng::set_tape(tape);
    let r = std::panic::catch_unwind(std::panic::AssertUnwindSafe(|| {
        let mut r = crate::rng::Rng::new(0);
        let idx = r.below(100_000);
        match sel {
            "C02" | "C03" | "C04" | "C07" => {
                let cfg = match r.below(3) { 0 => c03::share_cfg(), 1 => crate::gen::Cfg { max_entries: 3, ..Default::default() }, _ => crate::gen::Cfg::default() };
                let p = crate::gen::Gen::new(&mut r, cfg).packet();
                match sel {
                    "C02" => c02::check_one(ctx, "fuzz-tape", 0, &p),
                    "C03" => c03::check_one(ctx, "fuzz-tape", 0, &p),
                    "C04" => c04::check_one(ctx, "fuzz-tape", 0, &p),
                    _ => c07::check_one(ctx, "fuzz-tape", 0, &p),
                }
            }
            "C09" => c09::write_side(ctx, idx),
            "C10" => {
                if r.chance(2, 3) {
                    let code = *r.pick(&crate::refdns::TYPED_CODES);
                    c10::tuple_case(ctx, code, idx)
                } else {
                    c10::rejection_case(ctx, idx)
                }
            }
            "C13" => c13::u1_case(ctx, idx),
            "C15" => c15::history(ctx, idx),
            _ => {}
        }
    }));
    crate::rng::clear_tape();
    if let Err(e) = r {
        std::panic::resume_unwind(e);
    }
}

pub fn tools_for(id: &str) -> (bool, Option<&'static str>, bool) {
    match id {
        "C01" => (true, Some("parse"), false),
        "C02" | "C03" | "C04" | "C07" | "C09" | "C10" | "C15" => (false, Some("model"), false),
        "C05" => (false, Some("framing"), false),
        "C06" => (true, None, false),
        "C11" => (false, Some("reserialise"), false),
        "C12" => (true, Some("observe"), false),
        "C13" => (true, Some("model"), false),
        "C14" => (false, Some("pipeline"), true),
        "C16" => (true, None, false),
        "C20" => (true, None, false),
        _ => (false, None, false),
    }
}

pub static PROPS: &[Prop] = &[
    Prop { id: "C01", run: c01::run, meta: c01::meta, single_process: false, budget_quick_s: 120, budget_thorough_s: 900, handles_foreign_panics: false },
    Prop { id: "C02", run: c02::run, meta: c02::meta, single_process: false, budget_quick_s: 120, budget_thorough_s: 900, handles_foreign_panics: false },
    Prop { id: "C03", run: c03::run, meta: c03::meta, single_process: false, budget_quick_s: 120, budget_thorough_s: 900, handles_foreign_panics: false },
    Prop { id: "C04", run: c04::run, meta: c04::meta, single_process: false, budget_quick_s: 120, budget_thorough_s: 900, handles_foreign_panics: false },
    Prop { id: "C05", run: c05::run, meta: c05::meta, single_process: false, budget_quick_s: 120, budget_thorough_s: 900, handles_foreign_panics: false },
    Prop { id: "C06", run: c06::run, meta: c06::meta, single_process: false, budget_quick_s: 120, budget_thorough_s: 900, handles_foreign_panics: false },
    Prop { id: "C07", run: c07::run, meta: c07::meta, single_process: false, budget_quick_s: 120, budget_thorough_s: 900, handles_foreign_panics: false },
    Prop { id: "C08", run: c08::run, meta: c08::meta, single_process: false, budget_quick_s: 120, budget_thorough_s: 900, handles_foreign_panics: false },
    Prop { id: "C09", run: c09::run, meta: c09::meta, single_process: false, budget_quick_s: 120, budget_thorough_s: 900, handles_foreign_panics: false },
    Prop { id: "C10", run: c10::run, meta: c10::meta, single_process: false, budget_quick_s: 120, budget_thorough_s: 900, handles_foreign_panics: false },
    Prop { id: "C11", run: c11::run, meta: c11::meta, single_process: false, budget_quick_s: 120, budget_thorough_s: 900, handles_foreign_panics: false },
    Prop { id: "C12", run: c12::run, meta: c12::meta, single_process: false, budget_quick_s: 120, budget_thorough_s: 900, handles_foreign_panics: false },
    Prop { id: "C13", run: c13::run, meta: c13::meta, single_process: false, budget_quick_s: 180, budget_thorough_s: 1500, handles_foreign_panics: true },
    Prop { id: "C20", run: c20::run, meta: c20::meta, single_process: false, budget_quick_s: 120, budget_thorough_s: 900, handles_foreign_panics: true },
    Prop { id: "C15", run: c15::run, meta: c15::meta, single_process: false, budget_quick_s: 120, budget_thorough_s: 900, handles_foreign_panics: true },
    Prop { id: "C16", run: c16::run, meta: c16::meta, single_process: false, budget_quick_s: 120, budget_thorough_s: 900, handles_foreign_panics: false },
    Prop { id: "C17", run: c17::run, meta: c17::meta, single_process: false, budget_quick_s: 120, budget_thorough_s: 900, handles_foreign_panics: false },
    Prop { id: "C18", run: c18::run, meta: c18::meta, single_process: false, budget_quick_s: 120, budget_thorough_s: 900, handles_foreign_panics: false },
    Prop { id: "C19", run: c19::run, meta: c19::meta, single_process: false, budget_quick_s: 120, budget_thorough_s: 900, handles_foreign_panics: false },
    Prop { id: "C14", run: c14::run, meta: c14::meta, single_process: false, budget_quick_s: 150, budget_thorough_s: 1200, handles_foreign_panics: true },
];

pub fn find(id: &str) -> Option<&'static Prop> {
    PROPS.iter().find(|p| p.id == id)
}
