//! C19 – TXT text and attribute conversions are lossless.

use crate::ctx::*;
use crate::monitor;
use crate::refdns::*;
use crate::rng::{fnv, Rng};
use serde_json::json;
use simple_dns::rdata::{RData, TXT};
use simple_dns::{CharacterString, Name, Packet, ResourceRecord, CLASS};
use std::collections::HashMap;
use std::convert::TryFrom;

pub fn meta() -> Meta {
    Meta {
        rule: "(a) strings over a Unicode pool with 1..4-byte characters placed so that chunk boundaries (multiples of 254/255) fall inside multi-byte characters, lengths 0..1100: \
String::try_from(TXT::try_from(s)) == s directly and after a wire round trip, every character-string <= 255 bytes (hook accessor + independent wire decode); (b) attribute maps within limits \
(keys non-empty and free of '=', entries <= 255 bytes, values absent/empty/non-empty): TXT::try_from(map).attributes() == map directly and after the wire; duplicates added with add_string: first wins; \
(c) long_attributes equals an independent splitter (split at ';' characters, then at the first '=' character, first wins) on strings containing the look-alikes U+013B, U+023B, U+013D, U+0A3D ...; \
(d) CharacterString::new / try_from(&str) / try_from(String) / TXT::add_string / with_string are Ok iff the BYTE length is <= 255, for every length 0..300 of texts made of 1-, 2-, 3- and 4-byte characters, and TXT::try_from(HashMap) is Ok iff its entry is <= 255 bytes. non-trivial = every case; distinct = hash of the input",
        assumptions: &["maps are compared on non-empty keys (the statement is silent on empty keys)"],
        exhaustive: false,
        min_distinct: 2000,
    }
}

const POOL: [&str; 16] = ["a", "b", "=", ";", " ", "é", "ß", "€", "한", "😀", "\u{013B}", "\u{023B}", "\u{013D}", "\u{0A3D}", "\u{FF1B}", "\u{FF1D}"];

fn gen_string(r: &mut Rng, target: usize) -> String {
    let mut s = String::new();
    // ASCII filler up to just before a chunk boundary, then a multi-byte character straddling it
    while s.len() < target {
        let next_boundary = ((s.len() / 254) + 1) * 254;
        let gap = next_boundary - s.len();
        if gap <= 3 && r.chance(3, 4) {
            { let c: &str = *r.pick(&["é", "€", "😀", "한"]); s.push_str(c); }
        } else if r.chance(1, 10) {
            { let c: &str = *r.pick(&POOL); s.push_str(c); }
        } else {
            let run = r.usize(1, gap.max(1)).min(40);
            for _ in 0..run {
                s.push((b'a' + r.below(26) as u8) as char);
            }
        }
    }
    s
}

fn wire_roundtrip(txt: &TXT) -> Result<(Vec<Vec<u8>>, TXT<'static>), String> {
    let mut p = Packet::new_reply(1);
    p.answers.push(ResourceRecord::new(Name::new("t.local").unwrap(), CLASS::IN, 1, RData::TXT(txt.clone())));
    let bytes = p.build_bytes_vec().map_err(|e| format!("build: {:?}", e))?;
    let typed = decode_typed(&bytes).map_err(|e| format!("reference decode: {:?}", e))?;
    let strings = match &typed.msg.secs[0][0].rd {
        Rd::Fields(f) => match &f[0] {
            F::List(l) => l.clone(),
            _ => return Err("not a TXT".into()),
        },
        _ => return Err("opaque".into()),
    };
    let parsed = Packet::parse(&bytes).map_err(|e| format!("parse: {:?}", e))?;
    match &parsed.answers[0].rdata {
        RData::TXT(t) => Ok((strings, t.clone().into_owned())),
        _ => Err("not TXT after parse".into()),
    }
}

fn splitter(full: &str) -> HashMap<String, Option<String>> {
    let mut m = HashMap::new();
    for part in full.split(';') {
        let (k, v) = match part.find('=') {
            Some(i) => (&part[..i], Some(part[i + 1..].to_string())),
            None => (part, None),
        };
        if k.is_empty() {
            continue;
        }
        m.entry(k.to_string()).or_insert(v);
    }
    m
}

fn check_text(ctx: &mut Ctx, family: &str, idx: u64, s: &str) {
    ctx.case(true, fnv(s.as_bytes()) ^ 0x19A);
    ctx.sample(family, || json!({"len": s.len(), "head": s.chars().take(40).collect::<String>()}));
    let case = || json!({"family": family, "idx": idx, "string": s});
    let res = monitor::guard(|| {
        let txt = TXT::try_from(s).map_err(|e| format!("TXT::try_from: {:?}", e))?;
        let direct = String::try_from(txt.clone()).map_err(|e| format!("String::try_from: {:?}", e))?;
        let lens: Vec<usize> = txt.verif_strings().iter().map(|x| x.len()).collect();
        let (wire_strings, parsed) = wire_roundtrip(&txt)?;
        let after = String::try_from(parsed).map_err(|e| format!("String::try_from(parsed): {:?}", e))?;
        Ok::<_, String>((direct, lens, wire_strings, after))
    });
    match res {
        Err(pn) => ctx.panic_violation("TXT text conversion", &pn, case()),
        Ok(Err(e)) => ctx.violation("text-lossless", "text-conversion-failed", e, case()),
        Ok(Ok((direct, lens, wire_strings, after))) => {
            if direct != *s {
                ctx.violation("text-lossless", "split-join-differs", format!("joined text differs (len {} vs {})", direct.len(), s.len()), case());
            } else if after != *s {
                ctx.violation("text-lossless", "split-join-differs-after-wire", "text differs after the wire".into(), case());
            } else if lens.iter().any(|l| *l > 255) || wire_strings.iter().any(|w| w.len() > 255) {
                ctx.violation("chunks-fit", "chunk-over-255", format!("chunk lengths {:?}", lens), case());
            } else if wire_strings.concat() != s.as_bytes() && !(s.is_empty() && wire_strings.concat().is_empty()) {
                ctx.violation("text-lossless", "wire-chunks-differ", "character-strings on the wire do not concatenate to the text".into(), case());
            } else {
                ctx.count("texts_lossless");
                if s.len() > 254 && !s.is_char_boundary(254) {
                    ctx.count("texts_with_multibyte_char_across_first_chunk_boundary");
                }
            }
        }
    }
}

pub fn run(ctx: &mut Ctx) {
    let tier = ctx.tier;
    // (a) text split/join
    let na = if ctx.slow_tool { 12 } else { tier.pick(100_000u64, 8_000_000u64) };
    for idx in 0..na {
        if !ctx.take("text", idx) {
            continue;
        }
        if ctx.stop("text") {
            break;
        }
        let mut r = ctx.rng("text", idx);
        let target = match idx % 8 {
            0 => *r.pick(&[0usize, 1, 253, 254, 255, 256, 507, 508, 509, 510, 761, 762, 763, 1016]),
            _ => r.usize(0, 1100),
        };
        let s = gen_string(&mut r, target);
        check_text(ctx, "text", idx, &s);
    }
    // (a2) punctuation that text-handling code is tempted to interpret (quotes, backslash, parentheses, separators, NUL, line ends):
    // every string up to four of them, alone and as the first / last characters of each 254-byte piece of a long text
    if ctx.family_active("text-special") {
        const SP: [&str; 13] = ["\"", "'", "\\", "a", " ", "=", ";", "(", ")", "@", "\0", "\t", "\n"];
        let lmax = if ctx.slow_tool { 1 } else { tier.pick(3usize, 4usize) };
        let mut base = 0u64;
        for l in 0..=lmax {
            let total = 13u64.pow(l as u32);
            for k in 0..total {
                let idx = base + k;
                if !ctx.take("text-special", idx) {
                    continue;
                }
                let w: String = crate::gen::digits(k, 13, l).into_iter().map(|d| SP[d]).collect();
                check_text(ctx, "text-special", idx, &w);
                if l == 2 {
                    // the two characters as first and last byte of piece 0, 1 and 2, and of a piece of 255 and 256 bytes
                    let (x, y) = (SP[crate::gen::digits(k, 13, 2)[0]], SP[crate::gen::digits(k, 13, 2)[1]]);
                    for (pre, mid) in [(0usize, 252usize), (254, 252), (508, 252), (0, 10), (254, 100), (0, 253), (0, 254), (0, 251)] {
                        let t = format!("{}{}{}{}{}", "p".repeat(pre), x, "m".repeat(mid), y, "s".repeat((k % 3) as usize * 7));
                        check_text(ctx, "text-special", idx, &t);
                    }
                    ctx.add("texts_with_special_piece_ends", 8);
                }
            }
            base += total;
        }
        ctx.sample("text-special", || json!({"alphabet": "\" ' \\ a space = ; ( ) @ NUL TAB LF", "max_len": lmax}));
    }
    // (b) attribute maps
    let nb = if ctx.slow_tool { 12 } else { tier.pick(50_000u64, 4_000_000u64) };
    for idx in 0..nb {
        if !ctx.take("map", idx) {
            continue;
        }
        if ctx.stop("map") {
            break;
        }
        let mut r = ctx.rng("map", idx);
        let n = r.usize(0, 8);
        let mut map: HashMap<String, Option<String>> = HashMap::new();
        for _ in 0..n {
            let mut k = String::new();
            for _ in 0..r.usize(1, 6) {
                let c = *r.pick(&["a", "b", "K", "k", "é", ";", " ", "\u{013D}", "1", "-"]);
                k.push_str(c);
            }
            let v = match r.below(5) {
                0 => None,
                1 => Some(String::new()),
                2 => Some("=".repeat(r.usize(1, 3))),
                3 => { let room = 255 - k.len() - 1; Some(gen_string(&mut r, room.saturating_sub(4)).chars().take_while({ let mut used = 0; move |c| { used += c.len_utf8(); used <= room } }).collect()) }
                _ => Some(format!("v{};x=y{}", r.below(9), POOL[r.below(16) as usize])),
            };
            map.insert(k, v);
        }
        ctx.case(true, fnv(format!("{:?}", { let mut v: Vec<_> = map.iter().collect(); v.sort(); v }).as_bytes()) ^ 0x19B);
        let case = || json!({"family": "map", "idx": idx, "map": format!("{:?}", map)});
        let res = monitor::guard(|| {
            let txt = TXT::try_from(map.clone()).map_err(|e| format!("TXT::try_from(map): {:?}", e))?;
            let direct = txt.attributes();
            let (_, parsed) = wire_roundtrip(&txt)?;
            Ok::<_, String>((direct, parsed.attributes()))
        });
        match res {
            Err(pn) => ctx.panic_violation("TXT attribute conversion", &pn, case()),
            Ok(Err(e)) => ctx.violation("attributes-lossless", "map-conversion-failed", e, case()),
            Ok(Ok((direct, after))) => {
                if direct != map {
                    ctx.violation("attributes-lossless", "attributes-differ", format!("attributes() = {:?}", direct), case());
                } else if after != map {
                    let why = if after.contains_key("") { "empty-key-after-wire" } else { "after-wire" };
                    ctx.violation("attributes-lossless", &format!("attributes-differ:{}", why), format!("attributes() after the wire = {:?}", after), case());
                } else {
                    ctx.count("maps_lossless");
                    if map.values().any(|v| v.is_none()) && map.values().any(|v| v.as_deref() == Some("")) {
                        ctx.count("maps_with_absent_and_empty_values");
                    }
                }
            }
        }
        // duplicates: first occurrence wins
        if idx % 4 == 0 {
            let a = format!("dup={}", r.below(100));
            let b = format!("dup={}x", r.below(100));
            let c = "dup".to_string();
            let order = [a.clone(), b.clone(), c.clone()];
            let first = order[(idx / 4 % 3) as usize].clone();
            let res = monitor::guard(|| {
                let mut t = TXT::new();
                t.add_string(&first).ok()?;
                for o in &order {
                    if *o != first {
                        t.add_string(o).ok()?;
                    }
                }
                Some(t.attributes().get("dup").cloned())
            });
            let want = Some(if first == c { None } else { Some(first[4..].to_string()) });
            match res {
                Ok(Some(got)) if got == want => ctx.count("duplicate_keys_first_wins"),
                Ok(got) => ctx.violation("first-wins", "duplicate-key-not-first", format!("first string {:?}, attributes()[dup] = {:?}", first, got), case()),
                Err(pn) => ctx.panic_violation("attributes with duplicates", &pn, case()),
            }
        }
    }
    // (c) long attributes
    let nc = if ctx.slow_tool { 12 } else { tier.pick(80_000u64, 6_000_000u64) };
    for idx in 0..nc {
        if !ctx.take("long", idx) {
            continue;
        }
        if ctx.stop("long") {
            break;
        }
        let mut r = ctx.rng("long", idx);
        let parts = r.usize(0, 8);
        let mut s = String::new();
        for i in 0..parts {
            if i > 0 {
                s.push(';');
            }
            for _ in 0..r.usize(0, 5) {
                { let c: &str = *r.pick(&POOL); s.push_str(c); }
            }
            if r.chance(1, 6) {
                let room = r.usize(200, 520);
                s.push_str(&gen_string(&mut r, room));
            }
        }
        ctx.case(true, fnv(s.as_bytes()) ^ 0x19C);
        let case = || json!({"family": "long", "idx": idx, "string": s});
        let res = monitor::guard(|| {
            let txt = TXT::try_from(s.as_str()).map_err(|e| format!("{:?}", e))?;
            txt.long_attributes().map_err(|e| format!("{:?}", e))
        });
        let mut want = splitter(&s);
        want.remove("");
        match res {
            Err(pn) => ctx.panic_violation("TXT::long_attributes", &pn, case()),
            Ok(Err(e)) => ctx.violation("long-attributes", "long-attributes-failed", e, case()),
            Ok(Ok(mut got)) => {
                got.remove("");
                if got != want {
                    let lookalike = s.chars().any(|c| (c as u32) > 255 && ((c as u32) & 0xFF == b';' as u32 || (c as u32) & 0xFF == b'=' as u32));
                    ctx.violation("long-attributes", if lookalike { "long-attributes-split-at-lookalike" } else { "long-attributes-differ" },
                        format!("long_attributes() = {:?}, independent splitter = {:?}", got, want), case());
                } else {
                    ctx.count("long_attribute_strings_agree");
                }
            }
        }
    }
    // (d) construction limits
    if ctx.family_active("limits") {
        for len in 0..=300u64 {
            if !ctx.take("limits", len) {
                continue;
            }
            // the limit is 255 BYTES: texts of exactly `len` bytes made of 1-, 2-, 3- and 4-byte characters
            for (flavour, ch) in ['z', 'é', '€', '😀'].into_iter().enumerate() {
                ctx.case(true, len ^ 0x19D0000 ^ ((flavour as u64) << 32));
                let mut s = String::new();
                while s.len() + ch.len_utf8() <= len as usize { s.push(ch); }
                while s.len() < len as usize { s.push('z'); }
                let bytes = s.as_bytes().to_vec();
                let want = len <= 255;
                // an attribute map with one entry `k=<value>` of exactly `len` bytes (len >= 2)
                let entry_value: Option<String> = if len >= 2 && s.is_char_boundary(2) { Some(s[2..].to_string()) } else { None };
                let res = monitor::guard(|| {
                    let map_ok = entry_value.as_ref().map(|v| {
                        let mut m = HashMap::new();
                        m.insert("k".to_string(), Some(v.clone()));
                        TXT::try_from(m).is_ok()
                    });
                    ([
                        CharacterString::new(&bytes).is_ok(),
                        CharacterString::try_from(s.as_str()).is_ok(),
                        CharacterString::try_from(s.clone()).is_ok(),
                        TXT::new().add_string(&s).is_ok(),
                        TXT::new().with_string(&s).is_ok(),
                    ], map_ok)
                });
                let case = || json!({"family": "limits", "idx": len, "character": ch.to_string()});
                match res {
                    Err(pn) => ctx.panic_violation("CharacterString construction", &pn, case()),
                    Ok((got, map_ok)) => {
                        if got.iter().any(|g| *g != want) {
                            ctx.violation("limit-255", "over-long-string-accepted-or-short-rejected", format!("{} bytes of {:?}: constructors [new, try_from(&str), try_from(String), add_string, with_string] returned {:?}", len, ch, got), case());
                        } else if map_ok.map(|m| m != want).unwrap_or(false) {
                            ctx.violation("limit-255", "attribute-entry-limit", format!("an attribute entry of {} bytes (value of {:?}): TXT::try_from(HashMap) returned ok={:?}", len, ch, map_ok), case());
                        } else {
                            ctx.count("length_limits_as_expected");
                        }
                    }
                }
            }
        }
    }
}
