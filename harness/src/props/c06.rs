//! C06 – domain names are decoded exactly as RFC 1035 prescribes.

use crate::bridge;
use crate::ctx::*;
use crate::gen::{digits, Cfg, Gen};
use crate::model::*;
use crate::monitor;
use crate::refdns::*;
use crate::rng::Rng;
use serde_json::json;
use simple_dns::Packet;

pub const SIGMA: [u8; 10] = [0x00, 0x01, 0x02, 0x03, 0x3F, 0x40, 0x80, 0xC0, 0xC1, b'a'];

pub fn meta() -> Meta {
    Meta {
        rule: "bounded-exhaustive: every buffer of length <= L (quick 6, thorough 8) over {00,01,02,03,3f,40,80,c0,c1,'a'} decoded at every \
start offset by the reference RFC 1035 4.1.4 decoder and by the library (hook verif::parse_name): reference Invalid => library Err; reference \
Valid with backward pointers and <= 4 hops => library Ok with exactly the same labels and resume offset; otherwise if Ok then identical. \
Plus boundary families (labels 62/63/64, names 253..257 wire bytes directly and through 1..3 hops, target label ending at the buffer end, \
pointers into header/RDATA) and reference-encoded full messages with arbitrary legal compression (pointer chains, pointers into RDATA) \
parsed through Packet::parse; and records of 13 name-bearing types whose RDLENGTH is 1..4 bytes longer than their typed content, followed by an A record: if accepted, the fields after the names are the bytes that follow them in place. non-trivial = (buffer, offset) whose first byte at the offset is not 00; distinct = hash of (buffer, offset)",
        assumptions: &["hop limits and rejection of forward pointers are tolerated library policies"],
        exhaustive: true,
        min_distinct: 10_000,
    }
}

fn class_of(r: &Result<NameOk, NameErr>) -> String {
    match r {
        Err(e) => format!("invalid_{:?}", e),
        Ok(n) if n.forward => "valid_forward_ptr".into(),
        Ok(n) if n.hops > 4 => "valid_deep_chain".into(),
        Ok(n) if n.hops > 0 => "valid_compressed".into(),
        Ok(_) => "valid_plain".into(),
    }
}

pub fn check_name(ctx: &mut Ctx, family: &str, idx: u64, buf: &[u8], off: usize) {
    let reference = decode_name(buf, off);
    let lib = monitor::guard(|| {
        simple_dns::verif::parse_name(buf, off).map(|(n, next)| (bridge::obs_name(&n), next)).map_err(|e| format!("{:?}", e))
    });
    let mut h = crate::rng::fnv(buf);
    h ^= (off as u64).wrapping_mul(0x9E3779B97F4A7C15);
    ctx.case(buf.get(off).map(|b| *b != 0).unwrap_or(false), h);
    let case = || json!({"family": family, "idx": idx, "buffer": hex(buf), "offset": off});
    let lib = match lib {
        Ok(l) => l,
        Err(p) => {
            ctx.panic_violation("Name::parse", &p, case());
            return;
        }
    };
    let cls = class_of(&reference);
    ctx.count(&format!("ref_{}__lib_{}", cls, if lib.is_ok() { "ok" } else { "err" }));
    match (&reference, &lib) {
        (Err(e), Ok((labels, next))) => ctx.violation(
            "invalid-names-rejected",
            &format!("accepted-invalid:{:?}", e),
            format!("library decoded {} (next {}) where RFC 1035 decoding fails with {:?}", name_text(labels), next, e),
            case(),
        ),
        (Err(_), Err(_)) => {}
        (Ok(n), Err(e)) => {
            if !n.forward && n.hops <= 4 {
                ctx.violation(
                    "valid-names-accepted",
                    &format!("rejected-valid:{}", cls),
                    format!("library rejected ({}) a valid name {} ({} hops, backward pointers only)", e, name_text(&n.labels), n.hops),
                    case(),
                );
            }
        }
        (Ok(n), Ok((labels, next))) => {
            if *labels != n.labels {
                ctx.violation("labels-exact", &format!("labels-differ:{}", cls),
                    format!("library labels {} vs RFC decoding {}", name_text(labels), name_text(&n.labels)), case());
            } else if *next != n.next {
                ctx.violation("resume-offset", &format!("cursor-differs:{}", cls),
                    format!("library resumes at {}, RFC in-place encoding ends at {}", next, n.next), case());
            } else if labels.iter().any(|l| l.is_empty() || l.len() > 63) || name_wire_len(labels) > 255 {
                ctx.violation("limits", "limits-exceeded", "accepted name violates the 63/255 limits".into(), case());
            }
        }
    }
}

fn boundary_buffers(r: &mut Rng) -> Vec<(Vec<u8>, usize)> {
    let mut out: Vec<(Vec<u8>, usize)> = Vec::new();
    // labels of 62/63/64 bytes, alone and after other labels
    for l in [1usize, 62, 63, 64, 65, 127, 128, 191, 192] {
        let mut b = vec![l as u8];
        b.extend(std::iter::repeat(b'x').take(l));
        b.push(0);
        // the same label reached through a pointer (alone, and after an in-place label)
        let mut viaptr = b.clone();
        let at = viaptr.len();
        viaptr.extend_from_slice(&[0xC0, 0x00]);
        out.push((viaptr.clone(), at));
        let at2 = viaptr.len();
        viaptr.extend_from_slice(&[2, b'p', b'q', 0xC0, 0x00]);
        out.push((viaptr, at2));
        out.push((b.clone(), 0));
        let mut b2 = vec![1, b'a'];
        b2.extend_from_slice(&b);
        out.push((b2, 0));
    }
    // names of 250..258 wire bytes directly and through 1..3 hops
    for wire in 250usize..=258 {
        for first in [63usize, 1, 31] {
            // build labels summing to wire bytes total (including the root byte)
            let mut body: Vec<u8> = Vec::new();
            let mut left = wire - 1;
            let mut firstl = first;
            while left > 0 {
                let mut take = left.min(firstl + 1).min(64);
                if left - take == 1 {
                    take -= 1;
                }
                if take < 2 {
                    take = left.min(64);
                    if take < 2 { break; }
                }
                body.push((take - 1) as u8);
                body.extend(std::iter::repeat(b'n').take(take - 1));
                left -= take;
                firstl = 63;
            }
            body.push(0);
            out.push((body.clone(), 0));
            // the same name reached through pointers: [name][ptr->0][ptr->prev]...
            let mut b = body.clone();
            let mut prev = 0usize;
            for _ in 0..3 {
                let here = b.len();
                b.push(0xC0 | (prev >> 8) as u8);
                b.push(prev as u8);
                out.push((b.clone(), here));
                prev = here;
            }
            // a label in place, then a pointer to the long name: total exceeds when wire is near the limit
            let mut b = body.clone();
            let here = b.len();
            b.extend_from_slice(&[2, b'p', b'q', 0xC0, 0x00]);
            out.push((b, here));
            // pointer into the middle of the name (second label)
            let second = 1 + body[0] as usize;
            if second < body.len() - 1 {
                let mut b = body.clone();
                let here = b.len();
                b.push(0xC0 | (second >> 8) as u8);
                b.push(second as u8);
                out.push((b, here));
            }
        }
    }
    // pointer target whose last label ends exactly at the end of the buffer (no terminator)
    for l in [1usize, 3, 63] {
        let mut b = vec![];
        b.push(l as u8);
        b.extend(std::iter::repeat(b'e').take(l));
        // name at the end: pointer sits before the label
        let mut buf = vec![0xC0, 0x02];
        buf.extend_from_slice(&b);
        out.push((buf.clone(), 0)); // forward pointer to a label run that hits the end
        // backward variant: label first, then filler, then pointer as the final two bytes
        let mut buf2 = b.clone();
        let start = buf2.len();
        buf2.extend_from_slice(&[0xC0, 0x00]);
        out.push((buf2.clone(), start));
        // label run that ends exactly at the pointer which points back to it (cycle through labels)
        out.push((buf2, 0));
    }
    // pointers to the last byte / one past the end / own second byte
    for n in [2usize, 3, 14, 64, 300] {
        let mut b = vec![b'z'; n];
        let l = b.len();
        b[l - 2] = 0xC0 | ((l - 1) >> 8) as u8;
        b[l - 1] = (l - 1) as u8;
        out.push((b.clone(), l - 2));
        let mut c = b.clone();
        c[l - 2] = 0xC0 | (l >> 8) as u8;
        c[l - 1] = l as u8;
        out.push((c, l - 2));
    }
    // random pointer soups
    for _ in 0..200 {
        let n = r.usize(2, 40);
        let mut b: Vec<u8> = (0..n).map(|_| *r.pick(&[0u8, 1, 2, 3, 0xC0, b'a', 0x3F, 0x40])).collect();
        for i in 0..n - 1 {
            if b[i] == 0xC0 {
                b[i + 1] = r.below(n as u64 + 2) as u8;
            }
        }
        let off = r.usize(0, n - 1);
        out.push((b, off));
    }
    out
}

pub fn run(ctx: &mut Ctx) {
    if let Some(c) = ctx.replay_case.clone() {
        if let (Some(b), Some(o)) = (c["buffer"].as_str().and_then(unhex), c["offset"].as_u64()) {
            check_name(ctx, "replay", 0, &b, o as usize);
            return;
        }
    }
    let tier = ctx.tier;
    let lmax = if ctx.slow_tool { 3 } else { tier.pick(6usize, 8usize) };

    if ctx.family_active("exh") {
        ctx.set_enumerated(true);
        let mut base = 0u64;
        for l in 1..=lmax {
            let total = 10u64.pow(l as u32);
            for k in 0..total {
                let idx = base + k;
                if !ctx.take("exh", idx) {
                    continue;
                }
                if ctx.stop("exh") {
                    break;
                }
                let buf: Vec<u8> = digits(k, 10, l).into_iter().map(|d| SIGMA[d]).collect();
                for off in 0..l {
                    check_name(ctx, "exh", idx, &buf, off);
                }
            }
            base += total;
        }
        ctx.set_enumerated(false);
        ctx.sample("exh", || json!({"alphabet": hex(&SIGMA), "max_len": lmax, "start_offsets": "every offset of every buffer"}));
    }

    if ctx.family_active("boundary") {
        let mut r = Rng::for_case(ctx.seed, "c06-boundary", 0);
        let bufs = boundary_buffers(&mut r);
        for (i, (b, off)) in bufs.iter().enumerate() {
            if !ctx.take("boundary", i as u64) {
                continue;
            }
            ctx.add("boundary_cases", 1);
            check_name(ctx, "boundary", i as u64, b, *off);
            // also every other start offset of the boundary buffers
            if b.len() <= 64 {
                for o in 0..b.len() {
                    check_name(ctx, "boundary", i as u64, b, o);
                }
            }
        }
        ctx.sample("boundary", || json!({"buffers": bufs.len(), "example": hex(&bufs[bufs.len() / 3].0)}));
    }

    // full messages with arbitrary legal compression, parsed through Packet::parse
    let n = if ctx.slow_tool { 320 } else { tier.pick(200_000u64, 10_000_000u64) };
    for idx in 0..n {
        if !ctx.take("msg", idx) {
            continue;
        }
        if ctx.stop("msg") {
            break;
        }
        let mut r = ctx.rng("msg", idx);
        let mut g = Gen::new(&mut r, Cfg { share: 85, max_entries: 5, max_rest: 8, edns: 0, long_names: idx % 4 == 0, ..Default::default() });
        let p = g.packet();
        let oi = g.r.usize(0, 5);
        let m = p.to_wire(oi);
        let enc = encode(&m, Plan::Arbitrary(Rng::for_case(ctx.seed, "c06-plan", idx)));
        ctx.add("message_pointers", enc.pointers as u64);
        ctx.add("message_pointers_in_foreign_rdata", enc.foreign_pointers as u64);
        let case = || json!({"family": "msg", "idx": idx, "bytes": hex(&enc.bytes)});
        ctx.case(enc.pointers > 0, crate::rng::fnv(&enc.bytes));
        ctx.sample("msg", || json!({"bytes": hex(&enc.bytes), "pointers": enc.pointers}));
        match monitor::guard(|| Packet::parse(&enc.bytes).map(|p| bridge::observe(&p)).map_err(|e| format!("{:?}", e))) {
            Err(pn) => ctx.panic_violation("Packet::parse", &pn, case()),
            Ok(Err(e)) => ctx.violation("valid-names-accepted", "message-rejected",
                format!("a valid message with legal backward compression was rejected: {}", e), case()),
            Ok(Ok(obs)) => {
                if let Some(d) = diff_pkt(&p, &obs) {
                    ctx.violation("labels-exact", &format!("message-names-differ:{}", super::common::diff_field(&p, &obs)),
                        format!("decoded message differs from the encoded model: {}", d), case());
                } else {
                    ctx.count("messages_decoded_exactly");
                }
            }
        }
    }

    // names inside RDATA whose RDLENGTH is a few bytes longer than the typed content (a record some other implementation
    // padded): if the library accepts the message, the fields that follow a name are still the bytes right after that
    // name's in-place encoding, and the record after it is intact
    let ns = if ctx.slow_tool { 26 } else { tier.pick(13_000u64, 650_000u64) };
    const NAME_THEN_FIXED: [u16; 13] = [6, 14, 17, 15, 36, 18, 21, 33, 2, 5, 12, 7, 8];
    for idx in 0..ns {
        if !ctx.take("rdata-slack", idx) {
            continue;
        }
        if ctx.stop("rdata-slack") {
            break;
        }
        let mut r = ctx.rng("rdata-slack", idx);
        let code = NAME_THEN_FIXED[(idx % 13) as usize];
        let mut g = Gen::new(&mut r, Cfg { share: 70, max_entries: 2, max_rest: 6, edns: 0, ..Default::default() });
        let mut p = PktM { id: idx as u16, flags: 0x8400, ..Default::default() };
        p.qs.push(g.question());
        let rec = g.record_of(code);
        p.secs[0].push(rec);
        p.secs[0].push(RecSem { name: vec![b"after".to_vec()], rtype: 1, class: 1, flush: false, ttl: 77, rd: Rd::Fields(vec![F::Int(0x0A0B0C0D)]) });
        let mut m = p.to_wire(0);
        let slack = 1 + (idx / 13) % 4;
        m.secs[0][0].extra = (0..slack).map(|i| 0xE0 + i as u8).collect();
        let enc = encode(&m, Plan::Arbitrary(Rng::for_case(ctx.seed, "c06-slack-plan", idx)));
        let case = || json!({"family": "rdata-slack", "idx": idx, "type": code, "slack": slack, "bytes": hex(&enc.bytes)});
        ctx.case(true, crate::rng::fnv(&enc.bytes));
        match monitor::guard(|| Packet::parse(&enc.bytes).map(|p| bridge::observe(&p)).map_err(|e| format!("{:?}", e))) {
            Err(pn) => ctx.panic_violation("Packet::parse", &pn, case()),
            Ok(Err(_)) => ctx.count("padded_rdata_rejected_(allowed)"),
            Ok(Ok(obs)) => {
                if let Some(d) = diff_pkt(&p, &obs) {
                    ctx.violation("resumes-after-name", &format!("fields-after-name-differ:{}", type_name(code)),
                        format!("a {} record whose RDLENGTH exceeds its typed content by {} byte(s) was accepted, but its fields are not the bytes that follow the names in place: {}", type_name(code), slack, d), case());
                } else {
                    ctx.count("padded_rdata_fields_read_after_the_names");
                }
            }
        }
    }
}
