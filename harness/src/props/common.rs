//! Helpers shared by several property checks.

use crate::bridge;
use crate::ctx::*;
use crate::model::*;
use crate::monitor;
use crate::refdns::*;
use serde_json::{json, Value};
use simple_dns::Packet;

/// Which record type a model difference concerns (for stable signatures).
pub fn diff_type(a: &PktM, b: &PktM) -> String {
    for s in 0..3 {
        for (x, y) in a.secs[s].iter().zip(b.secs[s].iter()) {
            if x != y {
                return type_name(x.rtype).to_string();
            }
        }
        if a.secs[s].len() != b.secs[s].len() {
            return "section-length".into();
        }
    }
    if a.qs != b.qs {
        return "question".into();
    }
    "header".into()
}

/// What kind of field differs (for stable signatures).
pub fn diff_field(a: &PktM, b: &PktM) -> &'static str {
    if a.id != b.id {
        return "id";
    }
    if a.flags != b.flags {
        return "flags";
    }
    if a.opcode != b.opcode {
        return "opcode";
    }
    if a.rcode != b.rcode {
        return "rcode";
    }
    if a.edns != b.edns {
        return "edns";
    }
    if a.qs != b.qs {
        return "question";
    }
    for s in 0..3 {
        if a.secs[s].len() != b.secs[s].len() {
            return "count";
        }
        for (x, y) in a.secs[s].iter().zip(b.secs[s].iter()) {
            if x.name != y.name {
                return "owner";
            }
            if x.rtype != y.rtype {
                return "type";
            }
            if x.class != y.class {
                return "class";
            }
            if x.flush != y.flush {
                return "cache-flush";
            }
            if x.ttl != y.ttl {
                return "ttl";
            }
            if x.rd != y.rd {
                return "rdata";
            }
        }
    }
    "none"
}

pub fn pkt_json(p: &PktM) -> Value {
    let s = format!("{:?}", p);
    if s.len() > 6000 {
        json!(format!("{}…({} chars)", &s[..6000], s.len()))
    } else {
        json!(s)
    }
}

pub fn has_type(p: &PktM, t: u16) -> bool {
    p.secs.iter().any(|s| s.iter().any(|r| r.rtype == t))
}

pub fn first_type(p: &PktM) -> String {
    for s in &p.secs {
        if let Some(r) = s.first() {
            return type_name(r.rtype).to_string();
        }
    }
    "none".into()
}

pub enum Built {
    Ok(Vec<u8>),
    Err(String),
    Panic(monitor::PanicRec),
}

pub fn build(p: &Packet, compressed: bool) -> Built {
    match monitor::guard(|| {
        if compressed {
            p.build_bytes_vec_compressed()
        } else {
            p.build_bytes_vec()
        }
    }) {
        Ok(Ok(b)) => Built::Ok(b),
        Ok(Err(e)) => Built::Err(format!("{:?}", e)),
        Err(p) => Built::Panic(p),
    }
}

/// parse + observe under guard
pub fn parse_obs(b: &[u8]) -> Result<Result<PktM, String>, monitor::PanicRec> {
    monitor::guard(|| match Packet::parse(b) {
        Ok(p) => Ok(bridge::observe(&p)),
        Err(e) => Err(format!("{:?}", e)),
    })
}

/// Report helper: builds the violation case JSON for a generated packet.
pub fn gen_case(family: &str, idx: u64, p: &PktM, extra: Value) -> Value {
    json!({"family": family, "idx": idx, "packet": pkt_json(p), "extra": extra})
}

/// Count the pointers in a message with the reference walker (question/owner/typed RDATA names).
pub fn count_pointers(b: &[u8]) -> Option<usize> {
    let t = decode_typed(b).ok()?;
    let mut n = 0;
    for q in &t.env.qs {
        n += q.name.ptrs.len().min(1);
    }
    for s in 0..3 {
        for (i, r) in t.env.secs[s].iter().enumerate() {
            n += r.name.ptrs.len().min(1);
            for np in &t.rd_names[s][i] {
                n += np.name.ptrs.len().min(1);
            }
        }
    }
    Some(n)
}

/// Run the standard "model -> lib -> bytes -> parse -> model" pipeline; returns (plain bytes, observed)
/// after reporting any failure as a violation of `ctx.prop`.
pub fn roundtrip(
    ctx: &mut Ctx,
    family: &str,
    idx: u64,
    p: &PktM,
    compressed: bool,
) -> Option<(Vec<u8>, PktM)> {
    let lib = match monitor::guard(|| bridge::to_lib(p)) {
        Ok(Ok(l)) => l,
        Ok(Err(e)) => {
            ctx.count("generator_outside_constructor_domain");
            ctx.notes.push(format!("to_lib refused a generated packet: {}", e));
            return None;
        }
        Err(pn) => {
            ctx.panic_violation("constructing the packet", &pn, gen_case(family, idx, p, json!({})));
            return None;
        }
    };
    let what = if compressed { "build_bytes_vec_compressed" } else { "build_bytes_vec" };
    let bytes = match build(&lib, compressed) {
        Built::Ok(b) => b,
        Built::Err(e) => {
            ctx.violation(
                "build-succeeds",
                &format!("build-error:{}:{}", what, first_type(p)),
                format!("{} failed with {} on a packet within DNS limits", what, e),
                gen_case(family, idx, p, json!({})),
            );
            return None;
        }
        Built::Panic(pn) => {
            ctx.panic_violation(what, &pn, gen_case(family, idx, p, json!({})));
            return None;
        }
    };
    match parse_obs(&bytes) {
        Ok(Ok(o)) => Some((bytes, o)),
        Ok(Err(e)) => {
            ctx.violation(
                "parse-own-output",
                &format!("parse-own-output:{}:{}", what, first_type(p)),
                format!("Packet::parse rejected the output of {}: {}", what, e),
                gen_case(family, idx, p, json!({"bytes": hex(&bytes)})),
            );
            None
        }
        Err(pn) => {
            ctx.panic_violation("Packet::parse (own output)", &pn, gen_case(family, idx, p, json!({"bytes": hex(&bytes)})));
            None
        }
    }
}

/// Lock-discipline monitor of the sync record store (hook `verif_lock`): acquisitions made by a thread that already
/// held the same lock. std's RwLock may deadlock on each of them depending on timing; the acquisition itself is the event.
pub fn report_lock_discipline(ctx: &mut Ctx, clause: &str, family: &str) {
    for r in simple_mdns::verif::take_lock_reports() {
        // "read-while-holding-read at file:line (thread x)"
        let kind = r.split(' ').next().unwrap_or("lock").to_string();
        let at = r.split(" at ").nth(1).and_then(|x| x.split(' ').next()).map(crate::monitor::short_loc).unwrap_or_default();
        ctx.violation(clause, &format!("lock-discipline:{}@{}", kind, at),
            format!("a library thread acquired the record store's RwLock while it already held it ({}): std's RwLock may deadlock there, depending on timing", r),
            json!({"family": family, "idx": 0, "report": r}));
    }
    ctx.count("lock_discipline_monitor_read");
}
