//! C09 – EDNS(0) data is carried per RFC 6891.

use super::common::*;
use crate::bridge;
use crate::ctx::*;
use crate::gen::{Cfg, Gen};
use crate::model::*;
use crate::monitor;
use crate::refdns::*;
use crate::rng::{fnv, Rng};
use serde_json::json;

pub fn meta() -> Meta {
    Meta {
        rule: "write side: packets (queries and responses) with OPT {udp, version, options} x rcode in the named set x 0..3 other additional records are serialised (plain and \
compressed) and walked by the independent decoder: exactly one TYPE-41 record, in the additional section, counted once in ARCOUNT, owner = single 00, \
CLASS = udp size, TTL bytes = [rcode>>4, version, *, *], header RCODE bits = rcode & 15 and the rest of the header word as given, RDATA = concatenated code/len/value triples. read side: \
reference-encoded third-party messages with the OPT record at every position of the additional section, all 256 extended-RCODE x 16 header-RCODE \
combinations (each once with QR set and once with QR clear; random opcode and flag bits elsewhere), version 0..255, boundary udp sizes, random DO/Z bits and option lists must parse with the OPT removed from additional_records, opt() \
exposing udp/version/options and rcode() equal to the recombined 12-bit code (named codes; Reserved otherwise). Anchored by a hand-assembled RFC-layout \
capture. non-trivial = every case carries an OPT; distinct = hash of the case",
        assumptions: &["the DO/Z flag bits of the OPT TTL are not exposed by the library and not constrained"],
        exhaustive: false,
        min_distinct: 2000,
    }
}

fn other_record(g: &mut Gen) -> RecSem {
    let t = *g.r.pick(&[1u16, 28, 16, 2, 33]);
    g.record_of(t)
}

pub fn write_side(ctx: &mut Ctx, idx: u64) {
    let mut r = ctx.rng("write", idx);
    let mut g = Gen::new(&mut r, Cfg { share: 50, ..Default::default() });
    let rc = if idx % 3 == 0 { 16 } else { NAMED_RCODES_LOW[(idx % 11) as usize] };
    let mut e = g.edns();
    if idx < 512 {
        e.version = (idx % 256) as u8;
    }
    if idx % 7 == 0 {
        e.udp = *g.r.pick(&[0u16, 1, 512, 1232, 4096, 0x7FFF, 0x8000, 0x8001, 65535]);
    }
    if idx % 40 == 3 {
        // option data of any length a 16-bit OPTION-LENGTH can express (padding, large cookies / key tags lists)
        let l = *g.r.pick(&[255usize, 256, 4095, 4096, 4097, 8192, 16383, 16384, 32768, 50_000]);
        let at = g.r.usize(0, e.opts.len());
        e.opts.insert(at, (g.r.int(16) as u16, vec![(idx % 251) as u8 + 1; l]));
        ctx.count("written_with_an_option_of_256_bytes_or_more");
    }
    // queries carry EDNS (and, through a proxy or a test tool, a 12-bit code) as well: the QR bit is not part of the rule
    let flags = match idx % 4 { 0 => 0x8000, 1 => 0, 2 => 0x0100, _ => 0x8000 | (g.r.int(16) as u16 & 0x07B0) };
    ctx.add(if flags & 0x8000 != 0 { "written_with_qr_set" } else { "written_with_qr_clear" }, 1);
    let mut p = PktM { id: g.r.int(16) as u16, flags, rcode: rc, edns: Some(e.clone()), ..Default::default() };
    if g.r.bool() {
        let q = g.question();
        p.qs.push(q);
    }
    for _ in 0..g.r.usize(0, 3) {
        let rec = other_record(&mut g);
        p.secs[2].push(rec);
    }
    if g.r.chance(1, 3) {
        let rec = other_record(&mut g);
        p.secs[0].push(rec);
    }
    // authority records: the OPT must still land in the additional section
    for _ in 0..*g.r.pick(&[0usize, 0, 1, 2]) {
        let rec = other_record(&mut g);
        p.secs[1].push(rec);
    }
    ctx.case(true, fnv(format!("w{:?}", p).as_bytes()));
    ctx.sample("write", || pkt_json(&p));
    let lib = match monitor::guard(|| bridge::to_lib(&p)) {
        Ok(Ok(l)) => l,
        _ => return,
    };
    for comp in [false, true] {
        let what = if comp { "build_bytes_vec_compressed" } else { "build_bytes_vec" };
        let out = match build(&lib, comp) {
            Built::Ok(o) => o,
            Built::Err(e) => {
                ctx.violation("build-succeeds", "build-error", format!("{} failed: {}", what, e), gen_case("write", idx, &p, json!({})));
                continue;
            }
            Built::Panic(pn) => {
                ctx.panic_violation(what, &pn, gen_case("write", idx, &p, json!({})));
                continue;
            }
        };
        let case = || gen_case("write", idx, &p, json!({"bytes": hex(&out), "entry": what}));
        let t = match decode_typed(&out) {
            Ok(t) => t,
            Err(e) => {
                ctx.violation("opt-record", "output-unwalkable", format!("{:?}", e), case());
                continue;
            }
        };
        let opts: Vec<&RRW> = t.env.secs[2].iter().filter(|r| r.rtype == 41).collect();
        let elsewhere = t.env.secs[0].iter().chain(t.env.secs[1].iter()).filter(|r| r.rtype == 41).count();
        if opts.len() != 1 || elsewhere != 0 || t.env.counts[3] as usize != p.secs[2].len() + 1
            || t.env.counts[2] as usize != p.secs[1].len() || t.env.counts[1] as usize != p.secs[0].len() {
            ctx.violation("opt-record", "opt-record-count", format!("{} OPT records in additional, {} elsewhere, counts {:?} for sections of {}/{}/{} records + OPT", opts.len(), elsewhere, t.env.counts, p.secs[0].len(), p.secs[1].len(), p.secs[2].len()), case());
            continue;
        }
        match parse_obs(&out) {
            Ok(Ok(back)) => {
                if back.edns != p.edns || back.rcode != p.rcode || back.flags != (p.flags & FLAG_MASK) || back.opcode != p.opcode || back.secs[1].len() != p.secs[1].len() || back.secs[2].len() != p.secs[2].len() {
                    ctx.violation("opt-record", "own-output-edns-lost", format!("parsing the library's own output shows edns {:?} rcode {} sections {}/{}/{}", back.edns.as_ref().map(|e| (e.udp, e.version)), back.rcode, back.secs[0].len(), back.secs[1].len(), back.secs[2].len()), case());
                }
            }
            _ => ctx.violation("opt-record", "own-output-unparseable", "the library rejects its own EDNS output".into(), case()),
        }
        let o = opts[0];
        let ttl = o.ttl.to_be_bytes();
        let rdata = &out[o.rd_off..o.end];
        let mut want_rd = Vec::new();
        for (c, d) in &e.opts {
            want_rd.extend_from_slice(&c.to_be_bytes());
            want_rd.extend_from_slice(&(d.len() as u16).to_be_bytes());
            want_rd.extend_from_slice(d);
        }
        let problems: Vec<&str> = [
            (out[o.start] != 0 || !o.name.labels.is_empty(), "owner-not-root"),
            (o.class != e.udp, "class-not-udp-size"),
            (ttl[0] != (rc >> 4) as u8, "ttl-extended-rcode"),
            (ttl[1] != e.version, "ttl-version"),
            ((t.env.flags & 0xF) != (rc & 0xF), "header-rcode-bits"),
            // the twelve bits go to those two places and nowhere else: the rest of the header word is what the packet was given
            ((t.env.flags & 0xFFF0) != ((p.flags & FLAG_MASK) | ((p.opcode & 0xF) << 11)), "header-word-outside-rcode"),
            (rdata != &want_rd[..], "rdata-options"),
        ].iter().filter(|(bad, _)| *bad).map(|(_, n)| *n).collect();
        if let Some(first) = problems.first() {
            ctx.violation("opt-layout", &format!("opt-layout:{}", first),
                format!("OPT record written with class {} ttl {:02x?} header rcode bits {} (want udp {}, ext-rcode {}, version {}): {:?}",
                    o.class, ttl, t.env.flags & 0xF, e.udp, rc >> 4, e.version, problems), case());
        } else {
            ctx.count("opt_records_written_per_rfc");
        }
    }
}

fn read_case(ctx: &mut Ctx, family: &str, idx: u64, hdr: u16, ext: u8, low: u16, version: u8, udp: u16, zflags: u16,
             opts: Vec<(u16, Vec<u8>)>, others: Vec<RecSem>, pos: usize, r: &mut Rng) {
    ctx.add(if hdr & 0x8000 != 0 { "read_with_qr_set" } else { "read_with_qr_clear" }, 1);
    let mut m = MsgM { id: idx as u16, flags: (hdr & 0xFFB0) | low, ..Default::default() };
    for o in &others {
        m.secs[2].push(o.to_wire());
    }
    let ttl = ((ext as u32) << 24) | ((version as u32) << 16) | zflags as u32;
    let pos = pos.min(m.secs[2].len());
    m.secs[2].insert(pos, RRM::new(vec![], 41, udp, ttl, Rd::Fields(vec![F::Pairs(opts.clone())])));
    let plan = if r.bool() { Plan::Canonical } else { Plan::None };
    let bytes = encode(&m, plan).bytes;
    ctx.case(true, fnv(&bytes));
    ctx.sample(family, || json!({"bytes": hex(&bytes)}));
    let case = || case_bytes_json(family, idx, &bytes);
    let code12 = ((ext as u16) << 4) | low;
    let want_rcode = if code12 <= 10 || code12 == 16 { code12 } else { RCODE_RESERVED };
    match parse_obs(&bytes) {
        Err(pn) => ctx.panic_violation("Packet::parse", &pn, case()),
        Ok(Err(e)) => ctx.violation("edns-parse", "edns-message-rejected", format!("valid EDNS message rejected: {}", e), case()),
        Ok(Ok(obs)) => {
            let want_others: Vec<RecSem> = others.clone();
            let want_edns = Some(EdnsM { udp, version, opts });
            let which = if obs.secs[2] != want_others { Some("opt-not-removed-or-others-changed") }
                else if obs.edns.as_ref().map(|e| e.udp) != Some(udp) { Some("udp-size") }
                else if obs.edns.as_ref().map(|e| e.version) != Some(version) { Some("version") }
                else if obs.edns != want_edns { Some("options") }
                else if obs.rcode != want_rcode { Some("rcode") }
                else { None };
            match which {
                Some(w) => ctx.violation("edns-parse", &format!("edns-read:{}", w),
                    format!("ext-rcode {} low {} version {} udp {}: library shows rcode {} edns {:?} and {} additional records (want {} others)",
                        ext, low, version, udp, obs.rcode, obs.edns.as_ref().map(|e| (e.udp, e.version, e.opts.len())), obs.secs[2].len(), want_others.len()), case()),
                None => ctx.count("edns_messages_read_per_rfc"),
            }
        }
    }
}

/// dig-style query and BADVERS reply written out by hand in RFC 6891 layout (not produced by any encoder here)
const CAPTURE_QUERY: &[u8] = &[
    0x12, 0x34, 0x01, 0x20, 0x00, 0x01, 0x00, 0x00, 0x00, 0x00, 0x00, 0x01, // id, RD+AD, 1 question, 1 additional
    0x07, b'e', b'x', b'a', b'm', b'p', b'l', b'e', 0x03, b'c', b'o', b'm', 0x00, 0x00, 0x01, 0x00, 0x01,
    0x00, 0x00, 0x29, 0x04, 0xd0, 0x00, 0x00, 0x80, 0x00, 0x00, 0x0c, // root, OPT, udp 1232, ext 0, ver 0, DO, rdlen 12
    0x00, 0x0a, 0x00, 0x08, 0x01, 0x02, 0x03, 0x04, 0x05, 0x06, 0x07, 0x08, // COOKIE option
];
const CAPTURE_BADVERS: &[u8] = &[
    0x12, 0x34, 0x81, 0x80, 0x00, 0x00, 0x00, 0x00, 0x00, 0x00, 0x00, 0x01,
    0x00, 0x00, 0x29, 0x10, 0x00, 0x01, 0x00, 0x00, 0x00, 0x00, 0x00, // udp 4096, ext-rcode 1 (BADVERS = 16), version 0
];

pub fn run(ctx: &mut Ctx) {
    if let Some(tape) = ctx.tape_case() {
        // replay of a case found by the coverage-guided `model` target: the tape drives every generator decision
        super::model_case("C09", ctx, &tape);
        return;
    }
    let tier = ctx.tier;
    let scale = if ctx.slow_tool { 0 } else { tier.pick(10u64, 1000u64) };
    let nw = if ctx.slow_tool { 30 } else { 8_000 * scale };
    for idx in 0..nw {
        if ctx.take("write", idx) {
            if ctx.stop("write") {
                break;
            }
            write_side(ctx, idx);
        }
    }
    // read side: full sweep ext x low, versions, positions
    if ctx.family_active("sweep") {
        for qe in 0..512u64 {
            let (ext, hdr) = (qe % 256, if qe < 256 { 0x8000u16 } else { 0x0100 });
            for low in 0..16u64 {
                let idx = qe * 16 + low;
                if !ctx.take("sweep", idx) {
                    continue;
                }
                let mut r = ctx.rng("sweep", idx);
                let version = ((ext * 7 + low) % 256) as u8;
                let udp = [0u16, 512, 1232, 4096, 65535][(idx % 5) as usize];
                let z = if idx % 2 == 0 { 0x8000 } else { r.int(16) as u16 };
                read_case(ctx, "sweep", idx, hdr, ext as u8, low as u16, version, udp, z, vec![], vec![], 0, &mut r);
            }
        }
        for version in 0..256u64 {
            let idx = 10_000 + version;
            if !ctx.take("sweep", idx) {
                continue;
            }
            let mut r = ctx.rng("sweep", idx);
            read_case(ctx, "sweep", idx, if version % 3 == 0 { 0 } else { 0x8400 }, (version % 2) as u8, 0, version as u8, 1232, 0, vec![(3, vec![])], vec![], 0, &mut r);
        }
    }
    let nr = if ctx.slow_tool { 30 } else { 12_000 * scale };
    for idx in 0..nr {
        if !ctx.take("read", idx) {
            continue;
        }
        if ctx.stop("read") {
            break;
        }
        let mut r = ctx.rng("read", idx);
        let mut g = Gen::new(&mut r, Cfg { share: 50, ..Default::default() });
        let mut e = g.edns();
        if idx % 40 == 3 {
            let l = *g.r.pick(&[255usize, 256, 4095, 4096, 4097, 8192, 16383, 16384, 32768, 50_000]);
            let at = g.r.usize(0, e.opts.len());
            e.opts.insert(at, (g.r.int(16) as u16, vec![(idx % 251) as u8 + 1; l]));
            ctx.count("read_with_an_option_of_256_bytes_or_more");
        }
        let n = g.r.usize(0, 3);
        let others: Vec<RecSem> = (0..n).map(|_| other_record(&mut g)).collect();
        let pos = g.r.usize(0, n);
        let (ext, low) = match g.r.below(4) {
            0 => (0u8, g.r.below(11) as u16),
            1 => (1, 0),
            _ => (g.r.int(8) as u8, g.r.below(16) as u16),
        };
        let z = g.r.int(16) as u16;
        let mut r2 = Rng::for_case(ctx.seed, "c09-read-plan", idx);
        ctx.add(&format!("opt_at_position_{}_of_{}", pos, n), 1);
        let hdr = match r2.below(3) { 0 => 0x8000, 1 => r2.int(16) as u16 & 0x7FB0, _ => r2.int(16) as u16 };
        read_case(ctx, "read", idx, hdr, ext, low, e.version, e.udp, z, e.opts, others, pos, &mut r2);
    }
    // hand-assembled captures
    if ctx.family_active("capture") && ctx.take("capture", 0) {
        for (i, (b, udp, rc, nopts)) in [(CAPTURE_QUERY, 1232u16, 0u16, 1usize), (CAPTURE_BADVERS, 4096, 16, 0)].iter().enumerate() {
            ctx.case(true, fnv(b));
            match parse_obs(b) {
                Ok(Ok(obs)) => {
                    let ok = obs.edns.as_ref().map(|e| (e.udp, e.version, e.opts.len())) == Some((*udp, 0, *nopts)) && obs.rcode == *rc && obs.secs[2].is_empty();
                    if !ok {
                        ctx.violation("edns-parse", "capture-misread", format!("hand-assembled RFC 6891 capture {} read as rcode {} edns {:?}", i, obs.rcode, obs.edns), case_bytes_json("capture", i as u64, b));
                    } else {
                        ctx.count("captures_read_per_rfc");
                    }
                    // and the reference decoder agrees with the hand-written bytes (anchors my encoder's layout)
                    if decode_typed(b).is_err() {
                        ctx.inconclusive.push("reference decoder rejects the hand-assembled capture".into());
                    }
                }
                Ok(Err(e)) => ctx.violation("edns-parse", "capture-rejected", format!("capture {} rejected: {}", i, e), case_bytes_json("capture", i as u64, b)),
                Err(pn) => ctx.panic_violation("Packet::parse", &pn, case_bytes_json("capture", i as u64, b)),
            }
        }
    }
}
