//! Shard context: case selection, counters, distinct hashes, violations, samples.

use crate::monitor::PanicRec;
use crate::rng::{fnv, Rng};
use serde_json::{json, Value};
use std::collections::{BTreeMap, HashSet};
use std::time::{Duration, Instant};

#[derive(Clone, Copy, PartialEq, Eq, Debug)]
pub enum Tier {
    Quick,
    Thorough,
}

impl Tier {
    pub fn name(self) -> &'static str {
        match self {
            Tier::Quick => "quick",
            Tier::Thorough => "thorough",
        }
    }
    /// pick by tier
    pub fn pick<T>(self, quick: T, thorough: T) -> T {
        match self {
            Tier::Quick => quick,
            Tier::Thorough => thorough,
        }
    }
}

#[derive(Clone, Debug)]
pub struct Violation {
    pub clause: String,
    /// stable identity of the failure (panic site, RR type + clause, …); known-findings match on it
    pub signature: String,
    pub detail: String,
    pub case: Value,
    pub count: u64,
}

pub struct Ctx {
    pub prop: String,
    pub tier: Tier,
    pub seed: u64,
    pub shard: u64,
    pub nshards: u64,
    pub evals: u64,
    pub hashes: HashSet<u64>,
    /// non-trivial cases of exhaustive enumerations: distinct by construction, counted without storing a hash
    pub distinct_by_construction: u64,
    pub enumerated: bool,
    pub counters: BTreeMap<String, u64>,
    pub maxima: BTreeMap<String, f64>,
    pub samples: BTreeMap<String, Vec<Value>>,
    pub violations: Vec<Violation>,
    pub notes: Vec<String>,
    pub inconclusive: Vec<String>,
    pub start: Instant,
    pub budget: Duration,
    /// replay mode: only this (family, idx) is executed
    pub only: Option<(String, u64)>,
    /// replay mode with literal input
    pub replay_case: Option<Value>,
    /// under Miri / valgrind: time and heap oracles off, workloads small
    pub slow_tool: bool,
    iters: u64,
    stopped: bool,
}

impl Ctx {
    pub fn new(prop: &str, tier: Tier, seed: u64, shard: u64, nshards: u64) -> Self {
        Ctx {
            prop: prop.to_string(),
            tier,
            seed,
            shard,
            nshards,
            evals: 0,
            hashes: HashSet::new(),
            distinct_by_construction: 0,
            enumerated: false,
            counters: BTreeMap::new(),
            maxima: BTreeMap::new(),
            samples: BTreeMap::new(),
            violations: Vec::new(),
            notes: Vec::new(),
            inconclusive: Vec::new(),
            start: Instant::now(),
            budget: Duration::from_secs(tier.pick(600, 3000)),
            only: None,
            replay_case: None,
            slow_tool: false,
            iters: 0,
            stopped: false,
        }
    }

    /// Is case (family, idx) this shard's to run?
    #[inline]
    pub fn take(&self, family: &str, idx: u64) -> bool {
        let mine = match &self.only {
            Some((f, i)) => f == family && *i == idx,
            None => idx % self.nshards == self.shard,
        };
        if mine {
            crate::monitor::set_case(family, idx);
        }
        mine
    }

    /// Whole family skipped in replay mode unless it is the replayed one.
    pub fn family_active(&self, family: &str) -> bool {
        match &self.only {
            Some((f, _)) => f == family,
            None => self.replay_case.is_none(),
        }
    }

    /// replay of a coverage-guided model case: the tape that drove the generators
    pub fn tape_case(&self) -> Option<Vec<u8>> {
        let c = self.replay_case.as_ref()?;
        if c["family"].as_str() == Some("fuzz-tape") {
            c["bytes"].as_str().and_then(crate::refdns::unhex)
        } else {
            None
        }
    }

    pub fn rng(&self, family: &str, idx: u64) -> Rng {
        Rng::for_case(self.seed, family, idx)
    }

    pub fn count(&mut self, key: &str) {
        self.add(key, 1)
    }

    pub fn add(&mut self, key: &str, n: u64) {
        if let Some(v) = self.counters.get_mut(key) {
            *v += n;
        } else {
            self.counters.insert(key.to_string(), n);
        }
    }

    pub fn max(&mut self, key: &str, v: f64) {
        let e = self.maxima.entry(key.to_string()).or_insert(v);
        if v > *e {
            *e = v
        }
    }

    /// Register one evaluated case. `nontrivial`: by the property's rule; `hash`: canonical descriptor.
    #[inline]
    pub fn case(&mut self, nontrivial: bool, hash: u64) {
        self.evals += 1;
        if nontrivial {
            if self.enumerated {
                self.distinct_by_construction += 1;
            } else {
                self.hashes.insert(hash);
            }
        }
    }

    /// While set, cases come from a complete enumeration of pairwise different inputs: they are counted as distinct
    /// without hashing (hundreds of millions of hashes would only cost memory).
    pub fn set_enumerated(&mut self, on: bool) {
        self.enumerated = on;
    }

    pub fn case_bytes(&mut self, nontrivial: bool, bytes: &[u8]) {
        let h = fnv(bytes);
        self.case(nontrivial, h)
    }

    /// Keep up to 2 samples per family (only shard 0 keeps them, to bound the evidence size).
    pub fn sample(&mut self, family: &str, v: impl FnOnce() -> Value) {
        if self.shard != 0 {
            return;
        }
        let e = self.samples.entry(family.to_string()).or_default();
        if e.len() < 2 {
            e.push(v());
        }
    }

    pub fn violation(&mut self, clause: &str, signature: &str, detail: String, case: Value) {
        if let Some(v) = self
            .violations
            .iter_mut()
            .find(|v| v.signature == signature)
        {
            v.count += 1;
            return;
        }
        if self.violations.len() >= 200 {
            self.add("violations_dropped_over_cap", 1);
            return;
        }
        self.violations.push(Violation {
            clause: clause.to_string(),
            signature: signature.to_string(),
            detail,
            case,
            count: 1,
        });
    }

    pub fn panic_violation(&mut self, op: &str, p: &PanicRec, case: Value) {
        let loc = crate::monitor::short_loc(&p.location);
        let sig = format!("panic@{}", loc);
        self.violation(
            "never-panics",
            &sig,
            format!("{} panicked at {}: {}", op, loc, p.message),
            case,
        );
    }

    /// Cheap per-iteration budget test for the long random families: true once the time budget is used up
    /// (the run then reports what it observed so far and says so in `notes`).
    pub fn stop(&mut self, family: &str) -> bool {
        if self.stopped {
            return true;
        }
        self.iters += 1;
        if self.iters & 0x3FF == 0 && self.time_up() {
            self.stopped = true;
            self.notes.push(format!("time budget reached in family '{}': remaining random cases skipped", family));
            return true;
        }
        false
    }

    pub fn time_up(&self) -> bool {
        self.start.elapsed() > self.budget
    }

    pub fn to_json(&self) -> Value {
        json!({
            "prop": self.prop,
            "shard": self.shard,
            "evals": self.evals,
            "distinct_local": self.hashes.len(),
            "distinct_by_construction": self.distinct_by_construction,
            "counters": self.counters,
            "maxima": self.maxima,
            "samples": self.samples,
            "notes": self.notes,
            "inconclusive": self.inconclusive,
            "violations": self.violations.iter().map(|v| json!({
                "clause": v.clause, "signature": v.signature, "detail": v.detail,
                "case": v.case, "count": v.count
            })).collect::<Vec<_>>(),
            "wall_s": self.start.elapsed().as_secs_f64(),
        })
    }
}

pub fn case_id(family: &str, idx: u64) -> Value {
    json!({"family": family, "idx": idx})
}

pub fn case_bytes_json(family: &str, idx: u64, bytes: &[u8]) -> Value {
    json!({"family": family, "idx": idx, "bytes": crate::refdns::hex(bytes)})
}

/// Static description of a property's check, for the evidence file.
pub struct Meta {
    pub rule: &'static str,
    pub assumptions: &'static [&'static str],
    pub exhaustive: bool,
    /// minimum number of distinct non-trivial cases below which a run is inconclusive
    pub min_distinct: u64,
}
