#![no_main]
// coverage-guided sequences of datagrams through the C14 handling pipelines (responder, discovery listener, resolver)
// over one fresh record store; any violation aborts so that libFuzzer saves the input, which the parent then replays
// through the plain harness before reporting it.
use libfuzzer_sys::fuzz_target;
use verif_harness::ctx::{Ctx, Tier};
use verif_harness::{monitor, props};
fuzz_target!(|data: &[u8]| {
    monitor::install_panic_hook();
    let mut ctx = Ctx::new("fuzz", Tier::Thorough, 1, 0, 1);
    ctx.slow_tool = true;
    props::c14::fuzz_sequence(&mut ctx, "fuzz", data);
    if !ctx.violations.is_empty() {
        eprintln!("oracle violation: {} :: {}", ctx.violations[0].signature, ctx.violations[0].detail);
        std::process::abort();
    }
});
