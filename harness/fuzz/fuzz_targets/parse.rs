#![no_main]
// C01: coverage-guided input discovery; libFuzzer's own -timeout / -malloc_limit_mb are the monitors here.
use libfuzzer_sys::fuzz_target;
use simple_dns::{header_buffer, Packet, PacketFlag};
fuzz_target!(|data: &[u8]| {
    let _ = Packet::parse(data);
    let _ = header_buffer::id(data);
    let _ = header_buffer::questions(data);
    let _ = header_buffer::answers(data);
    let _ = header_buffer::name_servers(data);
    let _ = header_buffer::additional_records(data);
    let _ = header_buffer::has_flags(data, PacketFlag::RESPONSE);
    let _ = header_buffer::rcode(data);
    let _ = header_buffer::opcode(data);
});
