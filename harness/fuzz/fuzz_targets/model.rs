#![no_main]
// Structure-aware, coverage-guided cases for the model-driven checks: the input is the tape from which every generator
// decision is read (rng::set_tape); VERIF_MODEL_SEL names the property whose oracle judges the case. Any violation aborts
// so that libFuzzer saves the tape, which the parent then replays through the plain harness before reporting it.
use libfuzzer_sys::fuzz_target;
use std::sync::OnceLock;
use verif_harness::ctx::{Ctx, Tier};
use verif_harness::{monitor, props};
static SEL: OnceLock<String> = OnceLock::new();
fuzz_target!(|data: &[u8]| {
    monitor::install_panic_hook();
    let sel = SEL.get_or_init(|| std::env::var("VERIF_MODEL_SEL").unwrap_or_else(|_| "C02".to_string()));
    let mut ctx = Ctx::new(sel, Tier::Thorough, 1, 0, 1);
    if let Err(p) = monitor::guard(|| props::model_case(sel, &mut ctx, data)) {
        eprintln!("panic outside the guarded library calls: {} at {}", p.message, p.location);
        std::process::abort();
    }
    if !ctx.violations.is_empty() {
        eprintln!("oracle violation: {} :: {}", ctx.violations[0].signature, ctx.violations[0].detail);
        std::process::abort();
    }
});
