#!/usr/bin/env python3
"""Hand triage of the survivors of tools/mutate.py, written down as rules so that it can be re-applied.
Each rule: (file regex, regex on the mutated line, verdict). A survivor that no rule matches stays 'untriaged'.
usage: tools/triage_rules.py   (updates mutants/auto/triage.json; then run tools/mutate.py report)"""
import json, glob, re, os
ROOT = os.path.dirname(os.path.dirname(os.path.abspath(__file__)))
AUTO = f'{ROOT}/mutants/auto'
REFRESH = 'outside every property: only the time at which a cached record is refreshed (re-queried) changes; C20 speaks about expiry, which is computed elsewhere'
TIMING = 'outside every property: pacing of the background announce / query / refresh loop'
RULES = [
    # ---- simple-dns ------------------------------------------------------------------------------------------
    (r'dns/name\.rs', r'\*position > data\.len\(\) \|\| pointer_position >= data\.len\(\)',
     'equivalent: when the cursor equals the length the next read is refused by the following bounds test (same error class; C01/C06 leave the error value free)'),
    (r'dns/name\.rs', r'pointer_position \+ 1 \+ len as usize >= data\.len\(\)',
     'equivalent: a label ending exactly at the end of the message has no terminator after it and is rejected one step later anyway'),
    (r'dns/packet\.rs', r'with_capacity\(\(items_count as usize\)\.min\(remaining / [46]\)\)',
     'equivalent: capacity hint only (the heap bound of C01 is a linear budget with slack, 4/5/6 bytes per entry all stay inside it)'),
    (r'dns/packet\.rs', r'with_capacity\(899\)|with_capacity\(901\)', 'equivalent: capacity hint only'),
    (r'rdata/opt\.rs', r'if false && \(\*position \+ 10 > data\.len\(\)',
     'equivalent: RData::parse has already checked that the ten fixed bytes of the record are present before OPT::parse runs'),
    (r'rdata/txt\.rs', r'chunks\(MAX_CHARACTER_STRING_LENGTH - [02]\)',
     'inside the latitude of C19: pieces of 253 or 255 bytes still fit a 255-byte character-string and join back to the same text'),
    (r'dns/resource_record\.rs', r'^\s*cache_flush: true,$',
     'outside every property: default of a constructor field (ResourceRecord::new / the parsed OPT pseudo-record); build-then-parse still returns the bit that was built, and the OPT record is lifted out of the section before anyone can read it'),
    (r'dns/resource_record\.rs', r'QTYPE::AXFR => false|QTYPE::MAILA => type_code != TYPE::MX',
     'outside the quantifier of C18: AXFR/IXFR/MAILA matching is not covered by the property (documented assumption)'),
    (r'dns/resource_record\.rs', r'out\.write_all\(&\[0, 1\]\)',
     'equivalent: placeholder bytes of RDLENGTH, overwritten by the back-patch'),
    (r'dns/rdata/\w+\.rs', r'^\*position \+= \d+;$',
     'equivalent since fix c0eaaa8: RData::parse re-synchronises the cursor to the end of RDLENGTH, the typed parser\'s own final advance is not observable'),
    (r'rdata/caa\.rs', r'\*position \+ [01] >=? data\.len\(\)',
     'equivalent: RDATA of length 0 never reaches the typed parser (it becomes the empty variant) and a one-byte CAA RDATA is rejected by the tag parser that follows'),
    (r'rdata/(mx|afsdb|naptr)\.rs', r'\*position \+ \d+ > data\.len\(\)',
     'equivalent: the fixed integers are followed by a name / strings that need at least one more byte, so an RDATA that ends right after them is rejected either way'),
    (r'rdata/loc\.rs', r'if false && \(self\.version != 0',
     'outside every property: refusing to WRITE a LOC value whose version was set to non-zero through the public field (C10 speaks about rejecting such encodings when parsing)'),
    (r'rdata/null\.rs', r'MAX_NULL_LENGTH',
     'outside DNS size limits: only NULL data of 65535 bytes or more behaves differently, which no message can carry'),
    (r'dns/header_buffer\.rs', r'current_flags\.to_be_bytes\(\)|^\.get\([23]\.\.[345]\)$',
     'dead code or equivalent: `set_flags` / `remove_flags` of header_buffer are pub(crate) and unused (allow(dead_code)); for the public peeks the same mutation is caught by C08 (see the DETECTED rows of this file)'),
    # ---- simple-mdns -----------------------------------------------------------------------------------------
    (r'resource_record_manager\.rs', r'should_refresh|refresh_at|ttl if ttl <|ttl / \d+ \* \d+|Authoritative => true', REFRESH),
    (r'service_discovery\.rs', r'channel\(11\)|recv_buffer = \[0u8; 9001\]', 'equivalent: buffer / channel capacity'),
    (r'service_discovery\.rs', r'sleep\(Duration::from_secs|from_secs\([0-9]+\)|expiration <= now|expiration < now|Instant::now\(\) - Duration|if false && \(expiration', TIMING),
    (r'service_discovery\.rs', r'self\.announce\((true|false)\)\.await\)\.is_err|service_discovery\.announce\(true\)',
     'outside every property: whether the start-up announcement carries the cache-flush bit / how its error is logged'),
    (r'service_discovery\.rs', r'has_flags\(simple_dns::PacketFlag::RESPONSE\)',
     'GAP at the time of the campaign, now caught: the listener never ingests responses; C15 live only called such rounds inconclusive. The witness-socket rule added to C15 (3 consecutive silent rounds with the peer\'s records seen on the wire) reports it (verified by hand for the std and the tokio listener)'),
    (r'service_discovery\.rs', r'DomainResourceFilter::authoritative\((true|false)\)',
     'equivalent for every store the property quantifies over: the instance owns all of its records under one name, with and without subdomains the same records are announced'),
    (r'service_discovery\.rs', r'if !\(cache_flush \)|if false && \(cache_flush \)',
     'outside every property: which of the two announce shapes (with/without cache-flush bit) is sent; both carry the same records'),
    (r'service_discovery\.rs', r'match_qtype\(TYPE::A\.into\(\)\) && r\.match_qtype\(TYPE::AAAA',
     'equivalent for every store the property quantifies over: the SRV target is the instance name itself, its address records are already among the answers'),
    (r'service_discovery\.rs', r'packet\.answers\.is_empty\(\)|resources\.is_empty\(\)|instance_name\.is_none\(\)',
     'equivalent: early return for an empty input; the code below it does nothing for an empty input either'),
    (r'service_discovery\.rs', r'Packet::new_reply\(2\)|Packet::new_query\(1\)', 'outside every property: message id of announcements / queries sent by the service'),
    (r'service_discovery\.rs', r'^\s*true,$', 'outside every property: unicast-response bit of the queries sent by the discovery service'),
    (r'service_discovery\.rs', r'^\|\| packet$',
     'outside every property: announce() then sends nothing (the `||` short-circuits before the send); C15 is conditional on the records having crossed the wire, and the peers still find each other through the query/response path'),
]
tri = json.load(open(f'{AUTO}/triage.json')) if os.path.exists(f'{AUTO}/triage.json') else {}
res = {}
for f in sorted(glob.glob(f'{AUTO}/results-*.jsonl')):
    for l in open(f):
        r = json.loads(l); res[r['id']] = r
new = 0
for i, r in res.items():
    if r['status'] != 'SURVIVED' or i in tri: continue
    for fre, lre, verdict in RULES:
        if verdict and re.search(fre, r['file']) and re.search(lre, r['new'].strip()):
            tri[i] = verdict; new += 1; break
json.dump(tri, open(f'{AUTO}/triage.json', 'w'), indent=1)
left = [r for i, r in res.items() if r['status'] == 'SURVIVED' and i not in tri]
print('newly triaged', new, 'untriaged', len(left))
for r in left: print(' ', r['id'], r['file'], r['line'], r['op'], '|', r['new'].strip()[:130])
