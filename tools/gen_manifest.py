#!/usr/bin/env python3
"""Regenerates /verif/MANIFEST.json from the table below (kept in one place so it stays valid)."""
import json, os, subprocess
ROOT = os.path.dirname(os.path.dirname(os.path.abspath(__file__)))
props = [json.loads(l) for l in open(f'{ROOT}/properties.jsonl')]
# id -> (technique, level text, level note)
CHECKS = {
 'C01': ('panic recorder + per-case thread-CPU and peak-heap meters + CPU watchdog over enumerated/havoc inputs; libFuzzer+ASan and Miri in thorough',
         'Exploration: every truncation and -1/+1/0/max corruption of every length-like field of reference-encoded messages for all 40 types, bounded-exhaustive tails/RDATA bodies, enumerated pointer graphs, amplification inputs and seeded havoc are parsed under a process-wide panic recorder, a per-case CPU meter (250ms+40us/B) and a per-case heap meter (64KiB+1KiB/B). Held on the executions observed, not a proof over all 2^(8n) inputs.',
         'Trusts the calibration of the two thresholds (DESIGN.md C01) and the harness monitors; a defect that stays under the thresholds or outside the generated families is missed.'),
 'C02': ('reference-model oracle: model packet -> public constructors -> build_bytes_vec -> parse -> field-by-field comparison in the model domain; thorough adds coverage-guided libFuzzer+ASan tapes that drive the generators through the same oracle',
         'Exploration over generated packets (every typed variant with boundary-biased tuples, opaque/empty RDATA, classes x cache-flush, QTYPE/QCLASS specials, named opcode x rcode x flag subsets, OPT, binary labels).',
         'Trusts the bridge (public constructors/fields + read-only hooks) and the domain limits listed in DESIGN.md C02.'),
 'C03': ('reference-model oracle comparing parse(compressed) with parse(plain) and the model; independent pointer counter; thorough adds coverage-guided libFuzzer+ASan tapes that drive the generators through the same oracle',
         'Exploration over suffix-sharing packets, a sweep that places a first occurrence at every offset 16360..16400, and messages up to 64 KB.',
         'Same trusted base as C02.'),
 'C04': ('independent typed walker over every serialisation + writer-configuration matrix monitor; thorough adds coverage-guided libFuzzer+ASan tapes that drive the generators through the same oracle',
         'Exploration: outputs of all four entry points are walked by the reference decoder (counts, RDLENGTH, OPT once, no trailing bytes) and ~60-150 writer configurations per packet are compared byte for byte, incl. every capacity 0..len+2 of fixed writers and short-write/Interrupted writers.',
         'Trusts the reference typed decoder (cross-validated at setup).'),
 'C05': ('independent RFC 1035 envelope walker run beside Packet::parse on every input; typed reference decode of each RDLENGTH slice; thorough adds a coverage-guided libFuzzer+ASan target through the same oracle',
         'Exploration over RDLENGTH-stretched/shrunk records for all 40 types, the cut/perturb corpus and havoc.',
         'Walker and schema table are the trusted base; forward pointers and multiple OPT records are latitude.'),
 'C06': ('reference RFC 1035 4.1.4 name decoder vs the library decoder (hook) on a bounded-exhaustive buffer space; Miri in thorough',
         'Bounded-exhaustive: every buffer of length <= 6 (quick) / 8 (thorough) over a 10-symbol alphabet at every start offset, plus boundary families and arbitrary-compression messages.',
         'Exhaustive only within the stated alphabet and length; reference decoder per DESIGN.md appendix B.'),
 'C07': ('schema-aware walker recording every name occurrence of compressed output; per-pointer oracle; thorough adds coverage-guided libFuzzer+ASan tapes that drive the generators through the same oracle',
         'Exploration over suffix-sharing packets x three writer offsets x the 16 KiB window sweep; every pointer and every must-not-compress name inspected.',
         'Trusts the schema table for which RDATA names are compressible.'),
 'C08': ('8-line bit model vs parse / peeks / set-remove-has / build, exhaustively',
         'Exhaustive over all 65536 flag words x 4 ids, all 128x128 flag-set pairs, all named opcode x rcode x flag subsets on the build side.',
         'Bit model written from RFC 1035 4.1.1.'),
 'C09': ('independent walker on written OPT records; reference-encoded third-party EDNS messages on the read side; hand-assembled RFC capture; thorough adds coverage-guided libFuzzer+ASan tapes that drive the generators through the same oracle',
         'Exploration: write side tuples (rcode, version, udp, options, other records) and a full read-side sweep of 256 extended x 16 header rcodes, all versions, OPT at every position.',
         'Reference encoder layout is anchored by a hand-assembled capture.'),
 'C10': ('declarative RFC schema table + independent encoder: parse side field equality, write side byte equality, structural rejections; thorough adds coverage-guided libFuzzer+ASan tapes that drive the generators through the same oracle',
         'Exploration: hundreds (quick) to tens of thousands (thorough) of boundary-biased tuples per type for all 40 types; rejection families; dnspython vectors.',
         'The ~40-row schema table (DESIGN.md appendix A) is trusted.'),
 'C11': ('parse -> re-serialise (plain and compressed) -> parse, compared in the model domain, over foreign encodings; thorough adds a coverage-guided libFuzzer+ASan target through the same oracle',
         'Exploration over arbitrary-compression reference messages, all 65536 header words, empty RDATA of every type, stretched records, corpus perturbations and havoc.',
         'Observation through public fields + hooks.'),
 'C12': ('panic recorder around every public observer applied to every part of parsed hostile packets; thorough adds a coverage-guided libFuzzer+ASan target through the same oracle and Miri',
         'Exploration: ~100 observer calls per packet over hostile-byte reference messages, corpus and havoc.',
         'Only panics are judged.'),
 'C13': ('executable store/reply model vs build_reply (hook) over a bounded-exhaustive universe of colliding names plus random histories, and the same judgement on the reply datagrams of real sync/tokio responders on loopback multicast (sampled); thorough adds Miri and coverage-guided libFuzzer+ASan tapes through the same oracle',
         'Bounded-exhaustive: all stores of <= 3 (quick) / <= 4 (thorough) records over 6 colliding owner names x {A,TXT,SRV} x {authoritative,cached} x all 2352 queries of <= 2 questions; plus tens of thousands of random add/remove/clear histories with 9 record types, 2 classes, ANY/MAILB.',
         'Model reads the statement in its weaker sense where it is ambiguous (subdomain matches allowed, exact-name matches required).'),
 'C14': ('global panic hook + RwLock poison probe + reply re-parse over the re-enacted handler pipelines (all inputs) and the real sync/tokio services on loopback multicast, IPv4 and IPv6, with marker queries, a lock-discipline monitor (hook) and a tokio-runtime heartbeat monitor (sampled); thorough adds valgrind memcheck on the real services and a coverage-guided libFuzzer+ASan target over the handling pipelines',
         'Exploration: ~3*10^5 (quick) datagrams through the three pipelines against a store shared with an application thread; 2400 (quick) / 50000 (thorough) datagrams through the real SimpleMdnsResponder, ServiceDiscovery and OneShotMdnsResolver loops (sync and tokio), each batch followed by marker queries, then lock-health probes through the public API.',
         'Level 1 re-enacts private loop bodies; level 2 needs loopback multicast (skipped and said so otherwise); missing marker replies without a panic are inconclusive.'),
 'C15': ('announce -> compressed wire -> parse -> real ingest function (hook) -> store -> from_records, compared with the announced descriptions; channel values; live pairs of real services over IPv4 (with a passive witness socket) and IPv6; bounded-exhaustive escape/unescape; thorough adds coverage-guided libFuzzer+ASan tapes that drive the generators through the same oracle',
         'Exploration over thousands of multi-peer histories in three modes (sync without/with channel, tokio) with foreign-traffic interleaving; escape/unescape exhaustive over a 5-symbol alphabet up to length 7/8.',
         'Domain limits of DESIGN.md C15.'),
 'C16': ('owned-copy observer after the receive buffer is overwritten and dropped; fixed-key hash comparison of equal values built through different routes; Miri in thorough',
         'Exploration over parsed arbitrary-compression messages of all 40 types and InstanceInformation pairs built in 8 insertion orders each.',
         'DefaultHasher::new() is deterministic.'),
 'C17': ('independent label grammar and suffix algebra vs Name::new / Display / is_subdomain_of / without / is_link_local, bounded-exhaustive',
         'Bounded-exhaustive: all strings of length <= 6 (quick) / 8 (thorough) over an 8-symbol alphabet, all label lengths 0..70 x 6 variants, wire lengths 245..262, all ordered pairs of 46 names.',
         'Grammar transcribed from the property statement.'),
 'C18': ('independent IANA table over all 65536 codes; matching matrix on built and parsed records',
         'Exhaustive over all 65536 codes for TYPE/QTYPE/CLASS/QCLASS; matching matrix of 48 record codes x 43 question types x 6 classes for both construction routes.',
         'IANA table written by hand in the harness.'),
 'C19': ('independent splitter / joiner and wire decode vs the TXT conversions',
         'Exploration: tens of thousands of Unicode strings with multi-byte characters across chunk boundaries, attribute maps with absent/empty values, look-alike code points; every length 0..300 for the constructors.',
         'Maps compared on non-empty keys.'),
 'C20': ('interval-tolerant time model around bracketed library calls (real sleeps; Miri virtual clock in thorough); a live family reads get_known_services() of real sync/tokio ServiceDiscovery instances before and after the lifetimes of received records',
         'Exploration: 480 (quick) / 6400 (thorough) histories of 6..14 steps with TTLs {0,1,2,1000}, cache-flush, re-adds, removes, clears and sleeps, each step followed by queries under the four filters; ~10^5 per-record decisions.',
         'Instant is monotonic; tolerance band = bracketing interval.'),
}
TECH_NA = 'check not built yet (work in progress; see DESIGN.md section 4)'
def main():
    src = subprocess.run("git -C /repo log --format=%H --grep='^verif hooks'", shell=True, text=True, capture_output=True).stdout.split()
    m = {
      "version": 1,
      "setup_cmd": "./check --setup",
      "hooks": {"guard": "cfg simple_dns_verif", "enable": "RUSTFLAGS=\"--cfg simple_dns_verif\" (set by ./check for the harness build; the library crates are path dependencies on /repo)",
                "baseline_off_cmd": "cd /repo && cargo test --workspace --no-fail-fast --offline", "source_commits": src, "add_only": True},
      "engines": [{"name": "verif-harness", "path": "harness/", "serves_properties": sorted(CHECKS), "kind_free_text": "Rust runtime-monitoring harness: panic recorder, allocation/CPU meters, independent reference codec (refdns), reference models; sharded over 16 processes"}],
      "checks": [], "not_applicable": [],
      "notes": "Exit codes: 0 held/inconclusive (said so), 1 unlisted violation, 2 machinery could not run. known_findings.json lists repaired defects (status fixed, suppress nothing)."
    }
    for p in props:
        i = p['id']
        if i in CHECKS:
            t, lt, ln = CHECKS[i]
            m['checks'].append({"property_id": i, "quick_cmd": f"./check {i} --tier quick", "thorough_cmd": f"./check {i} --tier thorough",
                "evidence_file": f"evidence/{i}.json", "replay_cmd_template": f"./check {i} --replay {{path}}", "engine": "verif-harness",
                "level_claimed": {"category": "exploration", "text": lt, "design_ref": f"DESIGN.md section 4, {i}"}, "level_note": ln, "technique": t})
        else:
            m['not_applicable'].append({"property_id": i, "reason": TECH_NA})
    json.dump(m, open(f'{ROOT}/MANIFEST.json', 'w'), indent=1)
main()
