#!/usr/bin/env python3
"""Regenerates /verif/MANIFEST.json from the table below (kept in one place so it stays valid)."""
import json, os, subprocess
ROOT = os.path.dirname(os.path.dirname(os.path.abspath(__file__)))
props = [json.loads(l) for l in open(f'{ROOT}/properties.jsonl')]
# id -> (technique, level text, level note)
CHECKS = {
 'C01': ('panic recorder + per-case thread-CPU and peak-heap meters + CPU watchdog over enumerated/havoc inputs; libFuzzer+ASan and Miri in thorough',
         'Exploration: every truncation and -1/+1/0/max corruption of every length-like field of reference-encoded messages for all 40 types, bounded-exhaustive tails/RDATA bodies, enumerated pointer graphs, amplification inputs and seeded havoc are parsed under a process-wide panic recorder, a per-case CPU meter (250ms+40us/B) and a per-case heap meter (64KiB+1KiB/B). Held on the executions observed, not a proof over all 2^(8n) inputs.',
         'Trusts the calibration of the two thresholds (DESIGN.md C01) and the harness monitors; a defect that stays under the thresholds or outside the generated families is missed.'),
 'C02': ('reference-model oracle: model packet -> public constructors -> build_bytes_vec -> parse -> field-by-field comparison in the model domain',
         'Exploration over generated packets (every typed variant with boundary-biased tuples, opaque/empty RDATA, classes x cache-flush, QTYPE/QCLASS specials, named opcode x rcode x flag subsets, OPT, binary labels).',
         'Trusts the bridge (public constructors/fields + read-only hooks) and the domain limits listed in DESIGN.md C02.'),
 'C03': ('reference-model oracle comparing parse(compressed) with parse(plain) and the model; independent pointer counter',
         'Exploration over suffix-sharing packets, a sweep that places a first occurrence at every offset 16360..16400, and messages up to 64 KB.',
         'Same trusted base as C02.'),
 'C04': ('independent typed walker over every serialisation + writer-configuration matrix monitor',
         'Exploration: outputs of all four entry points are walked by the reference decoder (counts, RDLENGTH, OPT once, no trailing bytes) and ~60-150 writer configurations per packet are compared byte for byte, incl. every capacity 0..len+2 of fixed writers and short-write/Interrupted writers.',
         'Trusts the reference typed decoder (cross-validated at setup).'),
 'C05': ('independent RFC 1035 envelope walker run beside Packet::parse on every input; typed reference decode of each RDLENGTH slice',
         'Exploration over RDLENGTH-stretched/shrunk records for all 40 types, the cut/perturb corpus and havoc.',
         'Walker and schema table are the trusted base; forward pointers and multiple OPT records are latitude.'),
 'C06': ('reference RFC 1035 4.1.4 name decoder vs the library decoder (hook) on a bounded-exhaustive buffer space',
         'Bounded-exhaustive: every buffer of length <= 6 (quick) / 8 (thorough) over a 10-symbol alphabet at every start offset, plus boundary families and arbitrary-compression messages.',
         'Exhaustive only within the stated alphabet and length; reference decoder per DESIGN.md appendix B.'),
 'C07': ('schema-aware walker recording every name occurrence of compressed output; per-pointer oracle',
         'Exploration over suffix-sharing packets x three writer offsets x the 16 KiB window sweep; every pointer and every must-not-compress name inspected.',
         'Trusts the schema table for which RDATA names are compressible.'),
 'C08': ('8-line bit model vs parse / peeks / set-remove-has / build, exhaustively',
         'Exhaustive over all 65536 flag words x 4 ids, all 128x128 flag-set pairs, all named opcode x rcode x flag subsets on the build side.',
         'Bit model written from RFC 1035 4.1.1.'),
 'C09': ('independent walker on written OPT records; reference-encoded third-party EDNS messages on the read side; hand-assembled RFC capture',
         'Exploration: write side tuples (rcode, version, udp, options, other records) and a full read-side sweep of 256 extended x 16 header rcodes, all versions, OPT at every position.',
         'Reference encoder layout is anchored by a hand-assembled capture.'),
 'C10': ('declarative RFC schema table + independent encoder: parse side field equality, write side byte equality, structural rejections',
         'Exploration: hundreds (quick) to tens of thousands (thorough) of boundary-biased tuples per type for all 40 types; rejection families; dnspython vectors.',
         'The ~40-row schema table (DESIGN.md appendix A) is trusted.'),
 'C11': ('parse -> re-serialise (plain and compressed) -> parse, compared in the model domain, over foreign encodings',
         'Exploration over arbitrary-compression reference messages, all 65536 header words, empty RDATA of every type, stretched records, corpus perturbations and havoc.',
         'Observation through public fields + hooks.'),
 'C12': ('panic recorder around every public observer applied to every part of parsed hostile packets',
         'Exploration: ~100 observer calls per packet over hostile-byte reference messages, corpus and havoc.',
         'Only panics are judged.'),
}
TECH_NA = 'check not built yet (work in progress; see DESIGN.md section 4)'
def main():
    src = subprocess.run("git -C /repo log --format=%H --grep='^verif hooks'", shell=True, text=True, capture_output=True).stdout.split()
    m = {
      "version": 1,
      "setup_cmd": "./check --setup",
      "hooks": {"guard": "cfg simple_dns_verif", "enable": "RUSTFLAGS=\"--cfg simple_dns_verif\" (set by ./check for the harness build; the library crates are path dependencies on /repo)",
                "baseline_off_cmd": "cd /repo && cargo test --workspace --no-fail-fast --offline", "source_commits": src, "add_only": True},
      "engines": [{"name": "verif-harness", "path": "harness/", "serves_properties": sorted(CHECKS), "kind_free_text": "Rust runtime-monitoring harness: panic recorder, allocation/CPU meters, independent reference codec (refdns), reference models; sharded over 16 processes"}],
      "checks": [], "not_applicable": [],
      "notes": "Exit codes: 0 held/inconclusive (said so), 1 unlisted violation, 2 machinery could not run. known_findings.json lists repaired defects (status fixed, suppress nothing)."
    }
    for p in props:
        i = p['id']
        if i in CHECKS:
            t, lt, ln = CHECKS[i]
            m['checks'].append({"property_id": i, "quick_cmd": f"./check {i} --tier quick", "thorough_cmd": f"./check {i} --tier thorough",
                "evidence_file": f"evidence/{i}.json", "replay_cmd_template": f"./check {i} --replay {{path}}", "engine": "verif-harness",
                "level_claimed": {"category": "exploration", "text": lt, "design_ref": f"DESIGN.md section 4, {i}"}, "level_note": ln, "technique": t})
        else:
            m['not_applicable'].append({"property_id": i, "reason": TECH_NA})
    json.dump(m, open(f'{ROOT}/MANIFEST.json', 'w'), indent=1)
main()
