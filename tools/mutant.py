#!/usr/bin/env python3
"""Apply a patch to /repo, run the named checks (quick tier), undo the patch, report.
usage: tools/mutant.py <patch-file> <Cxx> [<Cxx> ...] [--tier quick|thorough] [--record]
A check 'detects' the mutant when it exits 1 and prints a VIOLATION line."""
import subprocess, sys, time, os, json
ROOT = os.path.dirname(os.path.dirname(os.path.abspath(__file__)))
def sh(cmd, **kw):
    return subprocess.run(cmd, shell=True, text=True, capture_output=True, **kw)
def main():
    args = sys.argv[1:]
    tier = 'quick'
    record = False
    if '--tier' in args:
        i = args.index('--tier'); tier = args[i+1]; del args[i:i+2]
    if '--record' in args:
        args.remove('--record'); record = True
    patch, checks = os.path.abspath(args[0]), args[1:]
    st = sh('git -C /repo status --porcelain').stdout.strip()
    if st:
        print('refusing: /repo is not clean:\n' + st); sys.exit(2)
    a = sh(f'git -C /repo apply {patch}')
    if a.returncode != 0:
        print('patch does not apply:', a.stderr); sys.exit(2)
    results = []
    try:
        for c in checks:
            t0 = time.time()
            r = sh(f'{ROOT}/check {c} --tier {tier}', cwd=ROOT)
            dt = time.time() - t0
            viol = [l for l in r.stdout.splitlines() if l.startswith('VIOLATION')]
            sigs = []
            try:
                ev = json.load(open(f'{ROOT}/evidence/{c}.json'))
                sigs = [v['signature'] for v in ev['coverage'].get('violation_list', []) if not v.get('known')]
            except Exception:
                pass
            status = 'DETECTED' if (r.returncode == 1 and viol) else ('BUILD-FAILED' if r.returncode == 2 else 'missed')
            results.append((c, status, dt, sigs[:6]))
            print(f'{os.path.basename(patch)}: {c}: {status} ({dt:.1f}s) {sigs[:6]}')
            if r.returncode == 2:
                print(r.stdout[-2000:])
    finally:
        sh('git -C /repo checkout -- .')
        # evidence written while a change was applied is not evidence about /repo: put the committed files back
        sh(f'git -C {ROOT} checkout -- evidence')
        left = sh('git -C /repo status --porcelain').stdout.strip()
        if left:
            print('WARNING: /repo not clean after undo:', left)
    if record:
        with open(f'{ROOT}/mutants/RESULTS.md', 'a') as f:
            for c, status, dt, sigs in results:
                f.write(f'| {os.path.basename(patch)} | {c} | {tier} | {status} | {dt:.0f}s | {", ".join(sigs)[:160]} |\n')
main()
