#!/usr/bin/env python3
"""Rebuild mutants/RESULTS.md from what tools/seed_matrix.py last recorded in seeded/*/meta.json (each seeded change is re-run
whenever the check of its property changes; a full matrix run takes hours, so the table is compiled from the per-seed records).
Rows for mutants/revert-*.patch are carried over from the existing file."""
import json, glob, os, re
ROOT = os.path.dirname(os.path.dirname(os.path.abspath(__file__)))
old = open(f'{ROOT}/mutants/RESULTS.md').read().splitlines() if os.path.exists(f'{ROOT}/mutants/RESULTS.md') else []
keep = [l for l in old if l.startswith('| mutants/')]
rows, n, det = [], 0, 0
for d in sorted(glob.glob(f'{ROOT}/seeded/*/')):
    name = os.path.basename(d.rstrip('/'))
    meta = json.load(open(d + 'meta.json'))
    for c, r in sorted(meta.get('detected_by', {}).items()):
        own = c == meta['property']
        if own:
            n += 1; det += r['status'] == 'DETECTED'
        rows.append(f"| seeded/{name} | {c}{'' if own else ' (also run)'} | {r['status']} | {r['seconds']:.0f}s | {'; '.join(r['signatures'])[:200]} |")
with open(f'{ROOT}/mutants/RESULTS.md', 'w') as f:
    f.write('# Detection matrix (quick tier)\n\nCompiled by tools/results_from_meta.py from the records tools/seed_matrix.py keeps in seeded/*/meta.json (last run of each '
            'seeded change against the check of its own property). `seeded/*` are changes written by independent sub-agents from the property text alone; '
            '`mutants/revert-*` re-introduce a defect that was repaired with a `fix:` commit.\n\n'
            f'Seeded changes: {n}; reported by the check of their own property: {det}.\n\n| change | check | result | time | first signatures |\n|---|---|---|---|---|\n')
    for r in rows + keep: f.write(r + '\n')
print(n, det, len(keep))
