#!/bin/bash
# Which lines of /repo do the quick workloads of all 20 checks execute?  (a measurement of workload reach, not a check)
# usage: tools/coverage.sh [out-dir, default /tmp/verif-cov]   -- builds an instrumented harness on the nightly toolchain
# outside /verif, runs every quick command with it, prints the per-file line coverage of the two library crates and the
# uncovered lines, then removes the build. Evidence files written by the instrumented runs are restored from git.
set -u
ROOT="$(cd "$(dirname "${BASH_SOURCE[0]}")/.." && pwd)"
OUT="${1:-/tmp/verif-cov}"
BIN=$(dirname "$(rustc +nightly --print target-libdir)")/bin
mkdir -p "$OUT/prof"
# instrumented build scripts write a profile where they run (the package directory, i.e. inside /repo) unless told otherwise
export LLVM_PROFILE_FILE="$OUT/prof/build-%p-%m.profraw"
( cd "$ROOT/harness" && CARGO_NET_OFFLINE=true CARGO_TARGET_DIR="$OUT/target" RUSTFLAGS="--cfg simple_dns_verif -Cinstrument-coverage" cargo +nightly build --offline --profile verif 2>"$OUT/build.log" ) || { tail "$OUT/build.log"; exit 2; }
export VERIF_ROOT="$ROOT" VERIF_REPO=/repo LLVM_PROFILE_FILE="$OUT/prof/%p-%m.profraw"
for i in 01 02 03 04 05 06 07 08 09 10 11 12 13 14 15 16 17 18 19 20; do
  "$OUT/target/verif/verif-harness" run C$i --tier quick 2>&1 | grep -E "verdict=|VIOLATION"
done
git -C "$ROOT" checkout -- evidence
rm -f "$OUT"/prof/build-*.profraw
"$BIN/llvm-profdata" merge -sparse "$OUT"/prof/*.profraw -o "$OUT/all.profdata"
"$BIN/llvm-cov" report "$OUT/target/verif/verif-harness" -instr-profile="$OUT/all.profdata" --sources /repo/simple-dns/src /repo/simple-mdns/src 2>/dev/null \
  | awk 'NR>2 {printf "%-60s lines %5s missed %4s  %s\n", $1, $8, $9, $10}' | tee "$OUT/report.txt"
"$BIN/llvm-cov" show "$OUT/target/verif/verif-harness" -instr-profile="$OUT/all.profdata" --sources /repo/simple-dns/src /repo/simple-mdns/src 2>/dev/null \
  | grep -E "^/repo|^ +[0-9]+\| +0\|" > "$OUT/uncovered.txt"
echo "uncovered lines: $OUT/uncovered.txt"
rm -rf "$OUT/target" "$OUT/prof"
