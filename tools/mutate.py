#!/usr/bin/env python3
"""Systematic mutation campaign against the checks (an approximation of "realistic changes that still pass the tests").

  tools/mutate.py gen  [--per-file N] [--seed S]      -> mutants/auto/mutants.json  (sampled mutation sites)
  tools/mutate.py work <k> <n> [--jobs J]             -> worker k of n: own copy of /repo (/tmp/rm-k) and own worktree of
                                                        /verif (/tmp/vm-k); results appended to mutants/auto/results-k.jsonl
  tools/mutate.py report                              -> mutants/auto/REPORT.md

A mutant is *interesting* only if it compiles and the repository's own test suite still passes with it; then the
checks of the properties anchored in the mutated file are run (quick tier) through VERIF_REPO=<copy>. Survivors are
triaged by hand: equivalent / outside every property / genuine gap (-> workload or oracle extended).
Nothing here is used by the registered commands."""
import json, os, random, re, subprocess, sys, time, hashlib, shutil

ROOT = os.path.dirname(os.path.dirname(os.path.abspath(__file__)))
AUTO = f'{ROOT}/mutants/auto'

FILES = {
    # file -> checks that look at it
    'simple-dns/src/dns/header.rs': ['C01', 'C02', 'C08', 'C09', 'C11'],
    'simple-dns/src/dns/header_buffer.rs': ['C01', 'C08', 'C14'],
    'simple-dns/src/dns/packet.rs': ['C01', 'C02', 'C03', 'C04', 'C05', 'C09', 'C11'],
    'simple-dns/src/dns/name.rs': ['C01', 'C02', 'C03', 'C06', 'C07', 'C12', 'C16', 'C17'],
    'simple-dns/src/dns/character_string.rs': ['C01', 'C02', 'C10', 'C12', 'C19'],
    'simple-dns/src/dns/question.rs': ['C01', 'C02', 'C05', 'C11', 'C16'],
    'simple-dns/src/dns/resource_record.rs': ['C01', 'C02', 'C04', 'C05', 'C11', 'C16', 'C18', 'C13'],
    'simple-dns/src/dns/mod.rs': ['C08', 'C18', 'C02', 'C11'],
    'simple-dns/src/dns/rdata/macros.rs': ['C01', 'C05', 'C10', 'C18', 'C11'],
    'simple-dns/src/dns/rdata/mod.rs': ['C10', 'C18'],
    'simple-mdns/src/lib.rs': ['C13', 'C14'],
    'simple-mdns/src/resource_record_manager.rs': ['C13', 'C20', 'C14', 'C15'],
    'simple-mdns/src/instance_information.rs': ['C15', 'C16', 'C14'],
    'simple-mdns/src/conversion_utils.rs': ['C15'],
    'simple-mdns/src/sync_discovery/service_discovery.rs': ['C14', 'C15'],
    'simple-mdns/src/sync_discovery/simple_responder.rs': ['C14'],
    'simple-mdns/src/sync_discovery/oneshot_resolver.rs': ['C14'],
    'simple-mdns/src/async_discovery/service_discovery.rs': ['C14', 'C15'],
    'simple-mdns/src/async_discovery/simple_responder.rs': ['C14'],
}
RDATA_CHECKS = ['C01', 'C02', 'C04', 'C10', 'C18', 'C11', 'C16']
for f in sorted(os.listdir('/repo/simple-dns/src/dns/rdata')):
    if f.endswith('.rs') and f not in ('mod.rs', 'macros.rs'):
        extra = {'opt.rs': ['C09', 'C05'], 'txt.rs': ['C19', 'C12', 'C15'], 'svcb.rs': ['C07'], 'nsec.rs': ['C07'], 'ipseckey.rs': ['C07']}.get(f, [])
        FILES[f'simple-dns/src/dns/rdata/{f}'] = RDATA_CHECKS + extra

OPS = [
    (r' >= ', ' > '), (r' > ', ' >= '), (r' <= ', ' < '), (r' < ', ' <= '), (r' == ', ' != '), (r' != ', ' == '),
    (r' && ', ' || '), (r' \|\| ', ' && '), (r' \+ ', ' - '), (r' - ', ' + '), (r' \+= ', ' -= '),
    (r'\btrue\b', 'false'), (r'\bfalse\b', 'true'), (r'\.min\(', '.max('), (r'\.max\(', '.min('),
    (r' << ', ' >> '), (r' >> ', ' << '), (r' \| ', ' & '), (r' & ', ' | '),
]


def code_lines(path):
    """(lineno, text) of non-test, non-hook, non-comment lines"""
    src = open(path).read().split('\n')
    out = []
    skip_block = 0
    in_test = False
    in_comment = False
    for i, l in enumerate(src):
        s = l.strip()
        if in_comment:
            if '*/' in s:
                in_comment = False
            continue
        if s.startswith('/*'):
            in_comment = '*/' not in s
            continue
        if s.startswith('#[cfg(test)]'):
            # a test module ends the code of the file; a single cfg(test) item in the middle is skipped on its own
            nxt = next((x.strip() for x in src[i + 1:] if x.strip() and not x.strip().startswith(('///', '//', '#['))), '')
            if nxt.startswith(('mod ', 'pub mod ', 'pub(crate) mod ')):
                in_test = True
            else:
                skip_block = 1
            continue
        if in_test:
            continue
        if s.startswith('#[cfg(simple_dns_verif)]') or s.startswith('#[cfg(all(simple_dns_verif'):
            skip_block = 1
            continue
        if skip_block:
            # skip until the block opened after the cfg closes (brace counting from the first '{')
            skip_block += l.count('{') - l.count('}') if '{' in l or skip_block > 1 else 0
            if skip_block <= 1 and ('}' in l or ';' in l) and not (l.count('{') > l.count('}')):
                skip_block = 0
            continue
        if s.startswith('//') or s.startswith('#[') or s.startswith('use ') or not s:
            continue
        out.append((i, l))
    return out


def gen(per_file, seed, only=None):
    rnd = random.Random(seed)
    muts = []
    for rel in sorted(FILES):
        if only and not re.search(only, rel):
            continue
        path = f'/repo/{rel}'
        if not os.path.exists(path):
            continue
        cands = []
        for (i, l) in code_lines(path):
            code = l.split('//')[0]
            if 'log::' in code or 'format!' in code or 'write!(f' in code:
                continue
            for pat, rep in OPS:
                for m in re.finditer(pat, code):
                    new = code[:m.start()] + rep + code[m.end():]
                    cands.append({'file': rel, 'line': i + 1, 'orig': l, 'new': new + l[len(code):], 'op': f'{pat.strip()} -> {rep.strip()}'})
            # integer literals (not inside identifiers, not 0b masks): n -> n+1
            for m in re.finditer(r'(?<![\w.])(\d+)(?![\w.])', code):
                n = int(m.group(1))
                if n > 70000:
                    continue
                for nn in ({n + 1, max(n - 1, 0)} - {n}):
                    new = code[:m.start()] + str(nn) + code[m.end():]
                    cands.append({'file': rel, 'line': i + 1, 'orig': l, 'new': new + l[len(code):], 'op': f'literal {n} -> {nn}'})
            # bounds of literal ranges (`get(4..6)`, `[..2]`): the integer rule above skips digits next to a dot
            for m in re.finditer(r'(\d+)?\.\.(=?)(\d+)', code):
                for grp, delta in ((1, 1), (3, 1), (3, -1)):
                    if m.group(grp) is None:
                        continue
                    nn = int(m.group(grp)) + delta
                    if nn < 0:
                        continue
                    new = code[:m.start(grp)] + str(nn) + code[m.end(grp):]
                    cands.append({'file': rel, 'line': i + 1, 'orig': l, 'new': new + l[len(code):], 'op': f'range bound {m.group(grp)} -> {nn}'})
            # dropped check: `if cond {` whose body returns an error on the next line
            if re.match(r'\s*if .*\{\s*$', code):
                cands.append({'file': rel, 'line': i + 1, 'orig': l, 'new': re.sub(r'if (.*)\{\s*$', r'if false && (\1) {', code, count=1), 'op': 'condition -> false'})
                cands.append({'file': rel, 'line': i + 1, 'orig': l, 'new': re.sub(r'if (.*)\{\s*$', r'if !(\1) {', code, count=1), 'op': 'condition negated'})
        rnd.shuffle(cands)
        n = per_file if not rel.startswith('simple-dns/src/dns/rdata/') or rel.endswith(('mod.rs', 'macros.rs', 'txt.rs', 'opt.rs', 'svcb.rs', 'nsec.rs')) else max(3, per_file // 4)
        for c in cands[:n]:
            c['id'] = hashlib.sha1(f"{c['file']}:{c['line']}:{c['new']}".encode()).hexdigest()[:10]
            c['checks'] = FILES[rel]
            muts.append(c)
    os.makedirs(AUTO, exist_ok=True)
    # keep earlier mutants (results refer to ids), append new ones
    old = []
    if os.path.exists(f'{AUTO}/mutants.json'):
        old = json.load(open(f'{AUTO}/mutants.json'))
    seen = {m['id'] for m in old}
    merged = old + [m for m in muts if m['id'] not in seen]
    json.dump(merged, open(f'{AUTO}/mutants.json', 'w'), indent=0)
    print(len(muts), 'sampled;', len(merged), 'total in mutants.json')


def sh(cmd, cwd=None, env=None, timeout=None):
    try:
        return subprocess.run(cmd, shell=True, cwd=cwd, env=env, text=True, capture_output=True, timeout=timeout)
    except subprocess.TimeoutExpired as e:
        class R: pass
        r = R(); r.returncode = 124; r.stdout = (e.stdout or b'').decode() if isinstance(e.stdout, bytes) else (e.stdout or ''); r.stderr = 'TIMEOUT'
        return r


def work(k, n, jobs):
    R = f'/tmp/rm-{k}'
    V = f'/tmp/vm-{k}'
    if not os.path.exists(R):
        sh(f'mkdir -p {R} && rsync -a --exclude target --exclude .git /repo/ {R}/')
    if not os.path.exists(V):
        sh(f'git -C {ROOT} worktree add --detach {V} HEAD')
    else:
        sh(f'git -C {V} checkout -q --detach $(git -C {ROOT} rev-parse HEAD)')
    env = dict(os.environ, CARGO_NET_OFFLINE='true')
    env.pop('RUSTFLAGS', None)
    env.pop('CARGO_TARGET_DIR', None)
    muts = json.load(open(f'{AUTO}/mutants.json'))
    done = set()
    resf = f'{AUTO}/results-{k}.jsonl'
    for f in os.listdir(AUTO):
        if f.startswith('results-'):
            for l in open(f'{AUTO}/{f}'):
                try:
                    done.add(json.loads(l)['id'])
                except Exception:
                    pass
    mine = [m for i, m in enumerate(muts) if i % n == k and m['id'] not in done]
    print(f'worker {k}: {len(mine)} mutants', flush=True)
    # warm builds
    sh('cargo test --workspace --offline --no-run', cwd=R, env=dict(env, CARGO_TARGET_DIR=f'{R}/target'))
    sh(f'./check --setup', cwd=V, env=dict(env, VERIF_REPO=R))
    for m in mine:
        path = f'{R}/{m["file"]}'
        orig_src = open(path).read()
        lines = orig_src.split('\n')
        if lines[m['line'] - 1] != m['orig']:
            continue
        lines[m['line'] - 1] = m['new']
        open(path, 'w').write('\n'.join(lines))
        rec = {'id': m['id'], 'file': m['file'], 'line': m['line'], 'op': m['op'], 'new': m['new'].strip()}
        t0 = time.time()
        try:
            t = sh('cargo test --workspace --offline 2>&1 | tail -40', cwd=R, env=dict(env, CARGO_TARGET_DIR=f'{R}/target'), timeout=600)
            out = t.stdout
            if 'error: could not compile' in out or 'error[E' in out or 'error: aborting' in out:
                rec['status'] = 'does-not-compile'
            elif t.returncode == 124:
                rec['status'] = 'suite-hangs'
            elif 'FAILED' in out or 'test result: FAILED' in out or 'panicked' in out:
                rec['status'] = 'killed-by-suite'
            else:
                detected = []
                missed = []
                for c in m['checks']:
                    r = sh(f'./check {c} --tier quick --jobs {jobs}', cwd=V, env=dict(env, VERIF_REPO=R, VERIF_TOOLS='0'), timeout=1200)
                    if r.returncode == 1 and 'VIOLATION' in r.stdout:
                        detected.append(c)
                        break  # one detecting check is enough
                    elif r.returncode == 2:
                        rec['status'] = 'does-not-compile'  # code behind the sync/async-tokio features, which only the harness build enables
                        rec['detail'] = r.stdout[-300:]
                        break
                    else:
                        missed.append(c)
                if 'status' not in rec:
                    rec['status'] = 'DETECTED' if detected else 'SURVIVED'
                    rec['detected_by'] = detected
                    rec['ran'] = missed + detected
        finally:
            open(path, 'w').write(orig_src)
        rec['seconds'] = round(time.time() - t0, 1)
        with open(resf, 'a') as f:
            f.write(json.dumps(rec) + '\n')
        print(rec['status'], m['file'].split('/')[-1], m['line'], m['op'], rec.get('detected_by', ''), f"{rec['seconds']}s", flush=True)


def report():
    recs = {}
    for f in sorted(os.listdir(AUTO)):
        if f.startswith('results-'):
            for l in open(f'{AUTO}/{f}'):
                try:
                    r = json.loads(l); recs[r['id']] = r
                except Exception:
                    pass
    tri = {}
    if os.path.exists(f'{AUTO}/triage.json'):
        tri = json.load(open(f'{AUTO}/triage.json'))
    by = {}
    for r in recs.values():
        by.setdefault(r['status'], []).append(r)
    with open(f'{AUTO}/REPORT.md', 'w') as f:
        f.write('# Automatic mutation campaign (tools/mutate.py)\n\n')
        f.write('Mutation operators: relational / boolean / arithmetic / shift / bit operators swapped, integer literals +-1, `true`/`false`, `min`/`max`, conditions forced false or negated. ')
        f.write('Only mutants that compile **and** pass the repository\'s own test suite are run against the checks (quick tier, the checks of the properties anchored in the mutated file).\n\n')
        f.write('| status | count |\n|---|---|\n')
        for k in sorted(by):
            f.write(f'| {k} | {len(by[k])} |\n')
        alive = len(by.get('DETECTED', [])) + len(by.get('SURVIVED', []))
        if alive:
            f.write(f'\nOf the {alive} mutants that pass the suite, {len(by.get("DETECTED", []))} are detected by a check ({100.0 * len(by.get("DETECTED", [])) / alive:.1f} %).\n')
        f.write('\n## Survivors and their triage\n\n| file:line | mutation | triage |\n|---|---|---|\n')
        for r in sorted(by.get('SURVIVED', []), key=lambda r: (r['file'], r['line'])):
            f.write(f"| {r['file']}:{r['line']} | `{r['op']}`: `{r['new'][:100]}` | {tri.get(r['id'], 'untriaged')} |\n")
    print({k: len(v) for k, v in by.items()})


if __name__ == '__main__':
    a = sys.argv[1:]
    if a[0] == 'gen':
        per = int(a[a.index('--per-file') + 1]) if '--per-file' in a else 12
        seed = int(a[a.index('--seed') + 1]) if '--seed' in a else 1
        only = a[a.index('--files') + 1] if '--files' in a else None
        gen(per, seed, only)
    elif a[0] == 'work':
        jobs = int(a[a.index('--jobs') + 1]) if '--jobs' in a else 4
        work(int(a[1]), int(a[2]), jobs)
    elif a[0] == 'report':
        report()
