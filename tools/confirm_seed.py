#!/usr/bin/env python3
"""Confirm a seeded change produced in a scratch worktree and file it under /verif/seeded/<name>/.
usage: tools/confirm_seed.py <property> <name> <worktree> <demo-kind> [<append-target>]
  demo-kind: 'test:<crate>'  -> MUTANT/demo.rs is copied to <crate>/tests/seed_demo.rs and run with cargo test --test seed_demo
             'append:<file>' -> MUTANT/demo_tests.rs is appended to <file> and run with cargo test -p <crate> --lib demo_tests
Confirms: (1) workspace tests pass with the change, (2) demo fails with it, (3) demo passes without it."""
import subprocess, sys, os, json, shutil
prop, name, wt, kind = sys.argv[1:5]
ROOT = os.path.dirname(os.path.dirname(os.path.abspath(__file__)))
env = dict(os.environ, CARGO_TARGET_DIR=f'{wt}/target', CARGO_NET_OFFLINE='true')
env.pop('RUSTFLAGS', None)
def sh(cmd):
    return subprocess.run(cmd, shell=True, cwd=wt, env=env, text=True, capture_output=True)
def tail(r): return (r.stdout + r.stderr)[-1500:]
patch = f'{wt}/MUTANT/patch.diff'
# normalise: start from a clean tree + patch
sh('git checkout -- . && git clean -fdq -e MUTANT -e target')
r = sh(f'git apply {patch}')
assert r.returncode == 0, 'patch does not apply: ' + r.stderr
suite = sh('cargo test --workspace --offline 2>&1 | grep -E "^test result|FAILED|error(\\[|:)"')
suite_ok = 'FAILED' not in suite.stdout and 'error' not in suite.stdout and suite.stdout.count('test result: ok') >= 3
mode, arg = kind.split(':', 1)
if mode == 'test':
    demo_src = f'{wt}/MUTANT/demo.rs'
    install = f'cp {demo_src} {wt}/{arg}/tests/seed_demo.rs'
    run = f'cargo test -p {arg} --offline --all-features --test seed_demo'
    uninstall = f'rm -f {wt}/{arg}/tests/seed_demo.rs'
else:
    demo_src = f'{wt}/MUTANT/demo_tests.rs'
    crate = arg.split('/')[0]
    install = f'cat {demo_src} >> {wt}/{arg}'
    run = f'cargo test -p {crate} --offline --all-features --lib demo_tests'
    uninstall = f'true'
sh(install)
with_change = sh(run)
# without the change (demo still installed)
sh(f'git apply -R {patch}')
without = sh(run)
sh('git checkout -- . && git clean -fdq -e MUTANT -e target')
sh(uninstall)
sh(f'git apply {patch}')
res = {'suite_passes_with_change': suite_ok, 'demo_fails_with_change': with_change.returncode != 0, 'demo_passes_without_change': without.returncode == 0}
print(json.dumps(res))
if not all(res.values()):
    print('SUITE:', suite.stdout[-800:]); print('WITH:', tail(with_change)); print('WITHOUT:', tail(without)); sys.exit(1)
d = f'{ROOT}/seeded/{name}'
os.makedirs(d, exist_ok=True)
shutil.copy(patch, f'{d}/patch.diff')
shutil.copy(demo_src, f'{d}/' + os.path.basename(demo_src))
shutil.copy(f'{wt}/MUTANT/README.md', f'{d}/AUTHOR_NOTES.md')
meta = {'property': prop, 'name': name, 'demo': os.path.basename(demo_src), 'demo_install': kind,
        'confirmed': res, 'commands': {'suite': 'cargo test --workspace --offline (with the change applied)', 'demo': run},
        'needs_to_manifest': '', 'detected_by': {}}
json.dump(meta, open(f'{d}/meta.json', 'w'), indent=1)
print('filed', d)
